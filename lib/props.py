"""props - which harnesses exist and which stages decide which property."""

HARNESS = {
    'bitops': dict(cpp=['h/h_bitops.cpp'], c=['adp/adp_bitops.c'], repo=['librfn/bitops.c'], gen='gen_constexpr',
                   asan=False, ubsan=False, cflags=['-O2']),
    'rand': dict(cpp=['h/h_rand.cpp'], c=['adp/adp_rand.c'], repo=['librfn/rand.c'], asan=False, ubsan=False,
                 cflags=['-O2']),
    'pack': dict(cpp=['h/h_pack.cpp'], c=['adp/adp_pack.c'], repo=['librfn/pack.c']),
    'mqseq': dict(cpp=['h/h_mqseq.cpp'], c=['adp/adp_mq.c'], repo=['librfn/messageq.c']),
    'rotenc': dict(cpp=['h/h_rotenc.cpp'], c=['adp/adp_rotenc.c'], repo=['librfn/rotenc.c']),
    'mlog': dict(cpp=['h/h_mlog.cpp'], c=['adp/adp_mlog.c'],
                 repo=['librfn/mlog.c', 'librfn/string.c', 'librfn/util.c', 'librfn/posix/time_posix.c']),
    'hex': dict(cpp=['h/h_hex.cpp'], c=['adp/adp_hex.c'],
                repo=['librfn/hex.c']),
    'bintree': dict(cpp=['h/h_bintree.cpp'], c=['adp/adp_bintree.c'], repo=['librfn/bintree.c', 'librfn/util.c', 'librfn/posix/time_posix.c'],
                    extra_san=['-fno-sanitize=alignment']),
    'wav': dict(cpp=['h/h_wav.cpp'], c=['adp/adp_wav.c'],
                repo=['librfn/wavheader.c', 'librfn/pack.c', 'librfn/string.c', 'librfn/util.c', 'librfn/posix/time_posix.c']),
    'fibre': dict(cpp=['h/h_fibre.cpp'], c=['adp/adp_fibre.c'],
                  repo=['librfn/fibre.c', 'librfn/list.c', 'librfn/messageq.c', 'librfn/util.c', 'librfn/posix/time_posix.c']),
    'console': dict(cpp=['h/h_console.cpp'], c=['adp/adp_console.c'],
                    repo=['librfn/console.c', 'librfn/fibre.c', 'librfn/list.c', 'librfn/messageq.c', 'librfn/ringbuf.c',
                          'librfn/util.c', 'librfn/posix/time_posix.c']),
    'mqconc': dict(cpp=['h/h_mqconc.cpp'], c=['adp/adp_mqconc.c', 'isched/vrt.c'], repo=['librfn/messageq.c'],
                   asan=False, repo_cflags=['-fsanitize=thread'], libs=['-ldl', '-rdynamic'],
                   about='isched: library object code instrumented with -fsanitize=thread, linked against harness/isched/vrt.c (generated schedules, vector-clock race detection)'),
    'ringseq': dict(cpp=['h/h_ringseq.cpp'], c=['adp/adp_ring.c'], repo=['librfn/ringbuf.c']),
    'ringconc': dict(cpp=['h/h_ringconc.cpp'], c=['adp/adp_ring.c', 'isched/vrt.c'], repo=['librfn/ringbuf.c'], cflags=['-DVERIF_ISCHED'],
                     asan=False, repo_cflags=['-fsanitize=thread'], libs=['-ldl', '-rdynamic'],
                     about='isched: ringbuf.c object code instrumented with -fsanitize=thread under harness/isched/vrt.c'),
    'fibconc': dict(cpp=['h/h_fibconc.cpp'], c=['adp/adp_fibconc.c', 'isched/vrt.c'],
                    repo=['librfn/fibre.c', 'librfn/messageq.c', 'librfn/list.c', 'librfn/util.c', 'librfn/posix/time_posix.c'],
                    asan=False, repo_cflags=['-fsanitize=thread'], libs=['-ldl', '-rdynamic'],
                    about='isched: fibre.c, messageq.c, list.c object code instrumented with -fsanitize=thread under harness/isched/vrt.c'),
    'pt': dict(kind='script', script='pt/pt_check.py', interp='python3-vt',
               about='Hypothesis program generator + emitter (real protothreads.h, gcc -O0) + reference interpreter'),
    'tsan': dict(kind='script', script='tsan/tsan_soak.py', interp='python3',
                 about='E6: real pthreads under the real ThreadSanitizer (gcc -fsanitize=thread, halt_on_error=1); thorough tier only, supplementary'),
    'conconc': dict(cpp=['h/h_conconc.cpp'], c=['adp/adp_console.c', 'isched/vrt.c'],
                    repo=['librfn/console.c', 'librfn/fibre.c', 'librfn/messageq.c', 'librfn/list.c', 'librfn/ringbuf.c', 'librfn/util.c', 'librfn/posix/time_posix.c'],
                    asan=False, repo_cflags=['-fsanitize=thread'], libs=['-ldl', '-rdynamic'],
                    about='isched: console fibre fed by console_putchar from interrupt/thread context (console.c, ringbuf.c, fibre.c instrumented)'),
    'list': dict(cpp=['h/h_list.cpp'], c=['adp/adp_list.c'], repo=['librfn/list.c']),
}

FIB_RULE = 'case = choice tape decoded into a history: 1-6 fibres (each one real protothread with 4 numbered segments), a time base (0, just below 2^32, just below 2^31, or random), <=40 external ops Run/RunAtomic/Kill/Next(dt); what a dispatched fibre does (0-3 inner calls of fibre_run / fibre_run_atomic / fibre_kill on any fibre, fibre_timeout(now+delta), then return yielded/waiting/exited/failed) is drawn from the tape at the moment of the dispatch. An abstract scheduler (FIFO run queue, arrival-ordered atomic requests with capacity 8, timer list ordered by 64-bit unwrapped due time then registration) runs in lock-step; the first divergence ends the case and is a failure if its kind belongs to this property. '

# the same three isched harnesses built with -D__STDC_NO_ATOMICS__: include/librfn/atomic.h then maps every atomic_* to
# the __atomic builtins itself (the fallback C07 anchors); the instrumentation still reports the order each one passes
for _n in ('mqconc', 'ringconc', 'fibconc'):
    _h = dict(HARNESS[_n])
    _h['cflags'] = list(_h.get('cflags', [])) + ['-D__STDC_NO_ATOMICS__', '-DH_SUFFIX="_fb"']
    _h['about'] = _h['about'] + ' - built with the __STDC_NO_ATOMICS__ fallback atomics'
    HARNESS[_n + '_fb'] = _h

PROPS = {
    'C10': dict(
        title='Message queue is a bounded FIFO of fixed buffers for every geometry',
        rule='case = geometry (depth 1..32, msg_len from a fixed set or random <=2000, slack < msg_len; storage an '
             'exact heap block under ASan) + optional pre-cycling (none / <=2*depth / 200..600 / 65400..65700 complete '
             'claim-send-receive-release rounds, so 8- and 16-bit index arithmetic has wrapped) + <=150 ops claim/send(any unsent)/receive/'
             'release(oldest)/empty applied in lock-step to a MESSAGEQ_VAR_INIT queue and a messageq_init queue; '
             'enum stages = every history of the given length for depth in {1,2,3,31,32} (31/32 pre-cycled so the '
             'wrap is crossed). Non-trivial: index wraps at depth-1 with >=2 messages outstanding, or depth in '
             '{1,32}, or slack>0. Distinct = distinct tapes.',
        rule_more='Later additions: the static initialiser macro is handed expressions (a + b), not identifiers; one case in four places the caller\'s memory 1-3 bytes into a heap block (no alignment promise); rolling pre-cycles keep the queue full while counters wrap.',
        stages=[
            dict(h='mqseq', mode='rc', what='random geometries and histories', quick=dict(cases=100000, len=330),
                 thorough=dict(cases=5000000, len=330)),
        ] + [
            dict(h='mqseq', mode='enum', what='all histories, depth %d' % d,
                 params=dict(depth=d, msg_len=3, slack=1, precycle=(d - 2 if d > 3 else 0)), workers=3,
                 quick=dict(params=dict(ops=8)), thorough=dict(params=dict(ops=11)))
            for d in (1, 2, 3, 31, 32)
        ],
        require={'wrapped-with-two-outstanding': 1000, 'depth-1': 1000, 'depth-32': 1000, 'slack': 1000,
                 'send-out-of-claim-order-possible': 1000,
                 'long-life (>= 256 messages before the generated operations)': 1000,
                 'long-life (>= 65536 messages before the generated operations)': 200, 'pre-cycled-with-the-queue-full': 1000, 'caller-memory-not-4-byte-aligned': 1000},
        assumptions=['releases follow receives in receive order (the only order the API documents)'],
    ),
    'C19': dict(
        title='Rotary encoder count equals net detent crossings for any signal sequence',
        rule='custom stage = breadth-first enumeration of every reachable (decoder, model) product state from the '
             'initial state under all four inputs (pruned only where live and latched position differ by more than '
             '3 clicks); rc stage = random walks of crank-k-clicks (k up to 20000, so the 8-, 14- and 16-bit wraps '
             'are crossed both ways), quarter steps, bounce, invalid jumps, repeats; enum stage = every input '
             'sequence of the given length. After every input: rotenc_count == latched position mod 256, '
             'rotenc_count14 == latched position mod 2^14, low 8 bits agree, within one click of the true position '
             '(when no invalid jump happened since the last detent). Non-trivial: a reading taken part-way through '
             'a click within one click of a multiple of 256. Distinct = distinct product states / tapes.',
        rule_more='Later additions: random walks include 1..36000 laps that never sample the detent (two valid quarter-steps, then an invalid jump across state 0), the region the BFS prunes.',
        stages=[
            dict(h='rotenc', mode='custom', what='reachable product state space (BFS)', workers=1),
            dict(h='rotenc', mode='rc', what='random walks', quick=dict(cases=40000, len=200),
                 thorough=dict(cases=1000000, len=200)),
            dict(h='rotenc', mode='enum', what='all input sequences', quick=dict(params=dict(ops=8)),
                 thorough=dict(params=dict(ops=11))),
        ],
        require={'128-or-more-quarter-steps-without-a-detent-sample': 1000, 'bounce': 100, 'invalid-jump': 100, 'part-way-through-a-click-next-to-a-multiple-of-256': 20,
                 'product states (decoder x model)': 100000},
        assumptions=['clockwise is 00->01->11->10->00 as the transition table in rotenc.c documents',
                     '"never more than one click from the true position" is asserted only while no invalid two-bit jump has occurred since the last detent (invalid jumps can hide arbitrarily many quarter-steps from the detent latch)'],
    ),
    'C20': dict(
        title='Memory log always holds the most recent 256 messages, oldest first',
        rule='case = <=30 ops out of: mlog/mlog_nice with one of 16 literal formats (0-3 word-sized args: numbers, constant '
             'strings, `*` field widths; two formats with wide fields so formatted lengths sweep 2..290), bursts of up to 600 messages (often landing around 256), mlog_clear, '
             'mlog_get_line(k) for k in -3..300 / around the end / INT_MIN..INT_MAX extremes, mlog_dump, and (hook) '
             'moving the internal counter to 1..600 below its 2^31 fold, congruent mod 256; optional final sweep '
             'of lines -2..258 and the dump. Non-trivial: a read after >=257 messages or after the fold was crossed. '
             'Distinct = distinct tapes. Thorough adds a hook-free run of 2^31+1000 real mlog calls.',
        rule_more='Later additions: the hook also moves the counter next to multiples of 2^16, 2^24 and 2^30 (congruent mod 256).',
        stages=[
            dict(h='mlog', mode='rc', what='random histories', quick=dict(cases=300000, len=200),
                 thorough=dict(cases=6000000, len=200)),
            dict(h='mlog', mode='custom', what='hook-free 2^31+1000 messages', tiers=('thorough',), workers=1,
                 thorough=dict(timeout=3000, watchdog=0)),
        ],
        require={'argument-wider-than-32-bits': 1000, 'counter-moved-next-to-a-multiple-of-2^16': 1000, 'read-after-257-messages': 1000, 'read-across-the-2^31-fold': 500, 'nice-dropped': 100,
                 'nice-recorded': 100, 'clear': 1000},
        assumptions=['the harness formats the expected text with snprintf and the same literal format strings',
                     'mlog_verif_set_count (hook) only moves the counter to a value congruent mod 256; the thorough tier crosses the fold without it'],
    ),
    'C18': dict(
        title='Hex dump output parses back to the same bytes; the parser is safe on any text',
        rule='three kinds of case: (a) byte array of length 0..100 (biased to 0,1,15,16,17,31,32,33,...; one in nine: 255..70001, around 2^8, 2^12, 2^16; those beyond 5000 bytes are parsed back in three windows of 32 lines) dumped with '
             'hex_dump_to_file into a memory stream, format checked, parsed back; (b) text built from the grammar '
             '(all lines or none carry an address: prefix; pairs in either case with optional 0x, all isspace() '
             'blanks, blank lines, trailing junk) whose bytes are known by construction; (c) arbitrary strings over '
             'hex digits, x, :, white space, newlines and any other byte, parsed under both calling conventions for '
             'safety (range, termination bound, -1 sticky, resume pointer inside the string, ASan on an exact heap '
             'block). Non-trivial: arrays > 16 bytes, multi-line prefixed texts, strings of >= 2 characters. '
             'Distinct = distinct tapes; enum stage = every string of length 6 (8 thorough) over the alphabet {0,x,a,F,:,newline,space,g}.',
        rule_more='Later additions: runs of 254..2500 blank lines between data lines; very rarely dumps of 1 MiB and 5 MiB. One grammar text in five is parsed in storage that has just been parsed with other (colon-free) contents.',
        stages=[
            dict(h='hex', mode='rc', what='random arrays, grammar texts, arbitrary strings',
                 quick=dict(cases=200000, len=260), thorough=dict(cases=5000000, len=260)),
            dict(h='hex', mode='enum', what='every string over {0,x,a,F,:,newline,space,g}', params=dict(kind=2),
                 quick=dict(params=dict(len=6)), thorough=dict(params=dict(len=8))),
            dict(h='hex', mode='fuzz', what='libFuzzer over arrays, grammar texts and arbitrary strings',
                 quick=dict(runs=600000, max_len=300, len=260), thorough=dict(runs=40000000, max_len=300, len=260, timeout=3000)),
        ],
        require={'round-trip-more-than-one-line': 1000, 'dump-of-256-bytes-or-more': 500, 'dump-of-65535-bytes-or-more': 100, 'run-of-999-or-more-blank-lines': 100, 'text-in-storage-parsed-before-with-other-contents': 1000, 'grammar-multi-line-with-prefix': 1000, 'arbitrary-string': 1000,
                 'trailing-junk': 1000, 'grammar-without-prefix': 1000},
        assumptions=['texts with an address prefix on only some lines are outside the stated grammar ("on each line") and are generated for the safety oracle only',
                     'glibc isspace/isxdigit accept negative char values (bytes >= 0x80) without faulting'],
    ),
    'C11': dict(
        title='Tree iterators visit in the promised order, restore the tree, and free safely',
        rule='enum stages = every binary tree shape with <= N nodes (pre-order existence bits with a node budget: a '
             'bijection between tapes and shapes), each node its own malloc block under ASan, plus the same with nodes '
             'at addresses == 2 (mod 4); per shape: in/pre/post-order iterators vs the harness recursive traversal and '
             'the repo bintree_traverse_*, all links restored after completion, second iteration identical, then '
             'bintree_free / _free_left / _free_right on every node with a logging, really-freeing deallocator '
             '(subtree exactly once, children first, survivors untouched, parent link cleared). rc stage = the same on '
             'random shapes <= 12 nodes, large/degenerate shapes up to 300 nodes (spines, zig-zag, skewed, full), and '
             'left/right-leaning list spines of 0..20 list nodes (list iterator vs bintree_traverse_list). '
             'Non-trivial: >= 3 nodes with a two-child node, or a spine of >= 2 list nodes. Distinct = distinct tapes.',
        rule_more='Later additions: custom stage = chains, zig-zag, comb and list spines of 65536..131075 nodes (iterators vs an explicit-stack traversal, links restored, bintree_free exactly once and children first); the two slowest shapes run in the thorough tier only. Further deep shapes: a root whose left child heads a right chain of 5000 / 70000 nodes, the mirror image, a comb of 300 chains of 300; right-leaning list spines may end in an empty list node.',
        stages=[
            dict(h='bintree', mode='custom', what='deep shapes: chains, zig-zag, comb, list spines beyond 2^16', workers=13, common=dict(watchdog=300), quick=dict(params=dict(heavy=0)), thorough=dict(params=dict(heavy=1))),
            dict(h='bintree', mode='enum', what='all shapes, malloc-per-node', params=dict(kind=0, mis=0),
                 common=dict(split=8), quick=dict(params=dict(nodes=12)), thorough=dict(params=dict(nodes=14))),
            dict(h='bintree', mode='enum', what='all shapes, 2-byte-aligned nodes', params=dict(kind=0, mis=1),
                 common=dict(split=8), quick=dict(params=dict(nodes=11)), thorough=dict(params=dict(nodes=13))),
            dict(h='bintree', mode='enum', what='all list spines', params=dict(kind=2, spine=20), workers=1),
            dict(h='bintree', mode='rc', what='random / large / degenerate shapes and spines',
                 quick=dict(cases=100000, len=700, maxsize=100), thorough=dict(cases=2000000, len=700)),
        ],
        require={'deep-shape (depth >= 65536)': 11, 'right-leaning-spine-ending-in-an-empty-list-node': 10, 'empty-tree': 1, 'single-node': 1, 'two-byte-aligned-nodes': 1000, 'large-shape': 500,
                 'left-leaning-spine': 20, 'right-leaning-spine': 20, 'free-every-node-and-side': 1000},
        assumptions=['list spines have non-NULL, non-list elements and lean one way (as the header draws them)',
                     'the 2-byte-aligned variant is built with UBSan alignment checks off: the misalignment is the harness choice, inside the stated domain',
                     'after bintree_free(node) the parent link to the freed subtree is the caller\'s business and is not inspected'],
    ),
    'C12': dict(
        title='Pack/unpack never leaves the buffer, fails stickily, and uses fixed byte order',
        rule='case = buffer size 0..64 (one case in six: 255..70000, around 2^8 and 2^16; exact heap block, ASan) + '
             '<=24 pack/unpack ops with edge/random values, byte counts 0..40 (big cases: also 250..66000) or sized to '
             'land one short of / exactly on / one past the end, NULL and non-NULL arrays, '
             'then (pure pack sequences) rewind and unpack everything; custom stage = all 65536 values through every '
             '16-bit op and all single-byte patterns through the 32-bit ops. Non-trivial: the sequence contains both '
             'an exact fit and an overflow. Distinct = distinct tapes.',
        stages=[
            dict(h='pack', mode='rc', what='random op sequences', quick=dict(cases=200000, len=400),
                 thorough=dict(cases=5000000, len=400)),
            dict(h='pack', mode='enum', what='all short sequences over a reduced domain', params=dict(maxsize=3),
                 common=dict(maxruns=4000000), quick=dict(params=dict(ops=3)), thorough=dict(params=dict(ops=4))),
            dict(h='pack', mode='custom', what='value sweeps (all 16-bit values; 32-bit single-byte patterns)'),
            dict(h='pack', mode='fuzz', what='libFuzzer over op sequences',
                 quick=dict(runs=400000, max_len=500, len=400), thorough=dict(runs=30000000, max_len=500, len=400, timeout=3000)),
        ],
        require={'exact-fit': 1000, 'overflow': 1000, 'round-trip': 1000, 'pack-null-source': 1000,
                 'unpack-null-destination': 1000, 'big-buffer': 1000, 'byte-array>=256': 1000},
        assumptions=['total requested bytes stay far below 2^31 (scope of the property)',
                     'operations declared in pack.h but not implemented are exercised only if the tree defines them (weak references)'],
    ),
    'C13': dict(
        title='WAV headers round-trip and correctly describe the file they head',
        rule='forward cases = (format, channels, rate, 0-3 frame counts) within 32-bit size limits over a zeroed / '
             'random-filled / previously-initialised structure: validate, encode (also into an exact-size block), '
             'decode == same length and byte-identical structure, all size relations, get_format; reverse cases = '
             'headers assembled field by field (PCM, float+fact, extensible with/without the 22-byte extension, odd fmt '
             'sizes, hostile values, truncation, trailing bytes, byte mutations): whenever decode accepts r bytes, '
             're-encoding gives r and the same bytes with skipped extension bytes zeroed. Non-trivial: forward with '
             'frames>0 or channels>1 or dirty prior contents; reverse accepted with fact chunk or extension. '
             'Distinct = distinct tapes.',
        rule_more='Later additions: one structured header in 31 carries an unknown fmt extension of 255..70000 bytes supplied in full.',
        stages=[
            dict(h='wav', mode='rc', what='forward + structured reverse', params=dict(oracle=13),
                 quick=dict(cases=200000, len=200), thorough=dict(cases=5000000, len=200)),
            dict(h='wav', mode='fuzz', what='libFuzzer over structured headers (reverse oracle)', params=dict(oracle=13, kind=1),
                 quick=dict(runs=400000, max_len=300, len=200), thorough=dict(runs=30000000, max_len=300, len=200, timeout=3000)),
        ],
        require={'unknown-extension-of-65535-bytes-or-more': 100, 'forward-over-previous-header': 1000, 'forward-frames-set-twice': 1000, 'accepted': 1000,
                 'accepted-with-fact-chunk': 300, 'accepted-with-extension': 300},
        assumptions=['byte_rate = rate*block_align is kept below 2^31 (it is computed in int); block_align <= 65535; header+data < 2^32',
                     'rf_wavheader_t has no padding (checked: 80 bytes), so byte identity of the structure is field identity'],
    ),
    'C14': dict(
        title='Decoding untrusted WAV bytes is memory-safe and reports length faithfully',
        rule='inputs = field-assembled headers with hostile size fields (0,1,17,18,22,0x7fffffff,0x80000000,0xffffffe4..'
             '0xffffffff), truncations, trailing bytes, byte mutations, and raw random bytes of length 0..103 (half with '
             'the magic planted), always in an exactly-sized heap block whose size is the declared length. Oracle: an '
             'independent 64-bit reference computes the bytes the header occupies (items that do not fit read as zero); '
             'decode must return <0, or >n only if incomplete, or exactly that length (>=44); every proper prefix of an '
             'accepted header must not succeed; validate/get_format/tostring must return on every resulting structure '
             '(signals and sanitizer reports kill the worker and are violations). Non-trivial: length>=44 with the magic '
             'present. Distinct = distinct tapes.',
        rule_more='Later additions: unknown fmt extensions of 255..70000 bytes supplied in full; for headers above 1000 bytes the truncation clause is tried at the first and last 300 lengths and every 509th in between.',
        stages=[
            dict(h='wav', mode='rc', what='structured + raw untrusted bytes', params=dict(oracle=14),
                 quick=dict(cases=300000, len=220), thorough=dict(cases=10000000, len=220)),
            dict(h='wav', mode='fuzz', what='libFuzzer (coverage-guided) over raw and structured bytes, same oracle', params=dict(oracle=14),
                 quick=dict(runs=600000, max_len=300, len=220), thorough=dict(runs=40000000, max_len=300, len=220, timeout=3000)),
        ],
        require={'widest-printable-fields': 1000, 'unknown-extension-of-65535-bytes-or-more': 100, 'length>=44-and-magic-present': 1000, 'accepted': 1000, 'structured-truncated': 1000, 'raw-bytes': 1000},
        assumptions=['declared lengths stay far below 2^31 (return type int)'],
    ),
    'C15': dict(
        title='Console line editing, tokenising and dispatch are exact and memory-safe',
        rule='case = fresh console_t in an exact heap block (ASan), both reset hooks, 0-7 registered capturing commands with short '
             'names that are prefixes of one another (exit at once or yield 1-3 times), then 1-6 segments, each a structured line '
             '(command token: registered / built-in / unknown / near miss; 0-4 arguments bare or single/double quoted; blanks and '
             'tabs; optional long argument reaching 70-85 characters; optional editing noise with known effect: junk+backspaces '
             'anywhere, Ctrl-C after garbage, backspace on an empty line) or a raw burst over the stated alphabet, delivered by '
             'console_process per character, by console_putchar in chunks of <=15 with scheduler passes, or as one console_eval '
             'string driven as a protothread; plus registration scenarios of 25-35 names (capacity 29). A line-editing model '
             'runs on every stream; each completed line is either inside the fragment the statement pins down (exact command, '
             'argc and all four argv strings are asserted) or gets the tier-1 clauses (argc 1..4, all argv inside the buffer and '
             'terminated, argv[0] equals the registered name, <=1 registered dispatch per completed line, none otherwise). '
             'enum stage = every stream of the given length over {a, space, single quote, double quote, BS, ^C, NL} with command '
             '"a" registered. Non-trivial: a line with a quoted argument, an edit keystroke or length>=70; a registration case '
             'that reaches the full table; an injection longer than the ring. Distinct = distinct tapes.',
        rule_more='Later additions: two commands in five overwrite all or part of the scratch area after parsing their arguments (console.h documents that use); every dispatched command must have run to completion when the console goes idle. One segment in thirteen is a line that fills the buffer exactly (79 characters) followed by backspace, Ctrl-C, a letter, a blank or a newline.',
        stages=[
            dict(h='console', mode='rc', what='random streams, three delivery mechanisms, registration',
                 quick=dict(cases=100000, len=600), thorough=dict(cases=3000000, len=600)),
            dict(h='console', mode='enum', what='all streams over a reduced alphabet', params=dict(kind=4),
                 quick=dict(params=dict(len=7)), thorough=dict(params=dict(len=9))),
            dict(h='console', mode='fuzz', what='libFuzzer over console streams (all delivery mechanisms)',
                 quick=dict(runs=200000, max_len=700, len=600), thorough=dict(runs=10000000, max_len=700, len=600, timeout=3000)),
        ],
        require={'buffer-filled-exactly-then-one-more-character': 1000, 'exact-dispatch-checked': 5000, 'exact-four-tokens': 500, 'line-with-quoted-argument': 5000, 'edit-backspace': 5000,
                 'edit-ctrl-c': 2000, 'line-completed-by-buffer-fill': 300, 'console_eval': 3000, 'registration-reached-full-table': 500,
                 'via-console_putchar': 5000, 'via-console_process': 5000, 'tier1-only-line': 2000},
        assumptions=['tokenizer corners the statement does not pin down get the tier-1 clauses only: leading white space, a quote as first '
                     'character or inside a bare word, closing quote followed by a non-space, adjacent different quotes, empty quoted '
                     'strings, a fifth token, unterminated quotes, everything after a buffer-fill completion',
                     'input bytes >= 0x80, NUL and control characters other than BS, Ctrl-C, TAB and NL are outside the stated alphabet',
                     'built-in help is exercised only through console_process (it keeps function-static state that must not leak between cases)'],
    ),
    'C16': dict(
        title='Bit-counting helpers equal their mathematical definitions on all inputs',
        rule='custom stage: every one of the 2^32 arguments through bitcnt/clz/ctz/ilog2 (16-way split), all 1-bit, '
             '2-bit and contiguous-mask 64-bit patterns through const_pop/const_lssb at run time, and a generated '
             'translation unit of ~2000 static-const initialisers (constant-expression context) compared with the '
             'run-time value and with gcc builtins; rc stage: random 32/64-bit arguments and table entries. '
             'Non-trivial: argument is neither 0 nor all-ones; distinct = distinct arguments (counted directly '
             'for the exhaustive stage, by tape hash for the random stage).',
        rule_more='Later additions: macro results are carried as long long (a -1 delivered as 2^32-1 is seen); a function that aborts inside the 2^32 sweep leaves a replayable case.',
        stages=[
            dict(h='bitops', mode='custom', what='exhaustive 2^32 + pattern sets + constant-expression table'),
            dict(h='bitops', mode='rc', what='random 32/64-bit arguments',
                 quick=dict(cases=100000, len=8), thorough=dict(cases=10000000, len=8)),
        ],
        require={'32-bit arguments (all four functions)': 1 << 32, 'constant-expression table entries': 1000},
        assumptions=['gcc __builtin_popcount/clz/ctz are the reference definitions',
                     'static-const initialisers are a constant-expression context, so the macros were folded at compile time'],
        level_text='exhaustive for the four 32-bit functions (all 2^32 arguments on every run); sampled (pattern sets + random) for the 64-bit macros',
    ),
    'C17': dict(
        title='rand31_r is exactly the Park-Miller minimal standard generator',
        rule='custom stage: every state s in 1..2^31-2 (16-way split): result == new state == 16807*s mod (2^31-1) '
             'in 64-bit arithmetic and in range; thorough adds the walk of the single trajectory from 1 (must close '
             'after exactly 2^31-2 steps); rc stage: random states incl. both ends. Every state is a distinct, '
             'non-trivial case.',
        stages=[
            dict(h='rand', mode='custom', what='all 2^31-2 states vs 64-bit arithmetic'),
            dict(h='rand', mode='custom', what='period walk from state 1', tiers=('thorough',), params=dict(period=1),
                 workers=1),
            dict(h='rand', mode='rc', what='random states', quick=dict(cases=50000, len=4),
                 thorough=dict(cases=2000000, len=4)),
        ],
        require={'states checked against 64-bit reference': (1 << 31) - 2},
        assumptions=['64-bit unsigned multiplication and remainder in the harness are the reference'],
        level_text='exhaustive: all 2^31-2 valid states on every run (quick and thorough)',
    ),
    'C01': dict(
        title='Fibres are dispatched exactly when runnable, once per reason, in FIFO order',
        rule=FIB_RULE + 'Asserted here: which fibre (or none) each call dispatches, fibre_self inside and after, the segment it resumes at, '
             'every fibre_kill and fibre_run_atomic result. Non-trivial: >=2 fibres and a coalesced reason, a kill that returned true, >=2 '
             'atomic requests at one drain, a timer cancelled by run/kill, or a restart after exit. Distinct = distinct tapes. enum stage = '
             'every history of the given length over 3 fibres with <=1 inner call per dispatch.',
        rule_more="Later additions: a reached fibre_timeout may follow an armed one in the same dispatch; one history in eight has 9-14 fibres (half of those 'sleepy': most dispatches just sleep a few ticks, time mostly stands still, then jumps).",
        stages=[
            dict(h='fibre', mode='rc', what='random histories', params=dict(oracle=1),
                 quick=dict(cases=200000, len=500), thorough=dict(cases=5000000, len=500)),
            dict(h='fibre', mode='enum', what='all short histories, 3 fibres', params=dict(oracle=1, fibres=3),
                 common=dict(maxruns=1500000, split=4), quick=dict(params=dict(ops=4)), thorough=dict(params=dict(ops=6), maxruns=30000000)),
            dict(h='fibre', mode='fuzz', what='libFuzzer over scheduler histories', params=dict(oracle=1),
                 quick=dict(runs=300000, max_len=600, len=500), thorough=dict(runs=20000000, max_len=600, len=500, timeout=3000)),
        ],
        require={'nine-or-more-fibres': 1000, 'satisfied-timeout-after-an-armed-one': 1000, 'coalesced-reason': 1000, 'kill-returned-true': 1000, 'two-or-more-atomic-requests-at-one-drain': 1000,
                 'timer-cancelled-by-run-or-kill': 1000, 'restart-after-exit': 1000},
        assumptions=['scope of the property is built into the generator: one unsatisfied fibre_timeout per dispatch, time within the 2^31 window; a fibre_run_atomic is never issued while 8 are undrained (what the 9th returns is outside the scope); acceptance below 8 is asserted',
                     'fibre_kill of the fibre that yielded in the previous pass does not stop its re-queue at the next pass (the statement places that re-queue at the next pass)'],
    ),
    'C02': dict(
        title='Fibre timeouts never fire early, fire in due order, and survive 32-bit time wrap',
        rule=FIB_RULE + 'Timer-heavy profile (deltas mostly 0..11 so that due times collide and expire together, occasionally up to 2^31-1). '
             'Asserted here: every fibre_timeout result; no dispatch of a fibre the model says is still asleep, wake-up in the first pass '
             'at/after the due time, order among same-pass expiries, no second dispatch from a cancelled timer (dispatch divergences that '
             'involve a fibre with timer activity since it last ran); and the metamorphic form of wrap-safety: the same tape replayed at '
             'time base 0 must give the same observation trace. Non-trivial: >=2 sleepers expiring in one pass, a cancellation, or a pass '
             'window straddling 0xffffffff->0 or 0x7fffffff->0x80000000 with timers in use. Distinct = distinct tapes.',
        rule_more='Later additions: as C01 (satisfied timeout after an armed one; crowds of 9-14 fibres so that nine or more timeouts expire in one pass); a libFuzzer stage over the same histories.',
        stages=[
            dict(h='fibre', mode='rc', what='timer-heavy random histories', params=dict(oracle=2, profile=2),
                 quick=dict(cases=400000, len=500), thorough=dict(cases=15000000, len=500)),
            dict(h='fibre', mode='fuzz', what='libFuzzer over timer-heavy histories', params=dict(oracle=2, profile=2),
                 quick=dict(runs=300000, max_len=600, len=500), thorough=dict(runs=20000000, max_len=600, len=500, timeout=3000)),
        ],
        require={'nine-or-more-sleepers-expire-in-one-pass': 200, 'satisfied-timeout-after-an-armed-one': 1000, 'two-or-more-sleepers-expire-in-one-pass': 1000, 'timer-cancelled-by-run-or-kill': 1000,
                 'window-straddles-a-wrap-point': 1000, 'metamorphic-base-0-replay': 1000},
        assumptions=['all pending due times lie within 2^31 ticks after the current time (by construction)'],
    ),
    'C03': dict(
        title='fibre_scheduler_next returns a wake-up time that never oversleeps',
        rule=FIB_RULE + 'Asserted here: sequential half - the value returned by every fibre_scheduler_next(t) equals t if the dispatched fibre '
             'yielded or anything is runnable on return (run queue or an undrained accepted atomic request, including those issued by the '
             'fibre body), else the earliest pending due time (cyclically after t), else t+FIBRE_UNBOUNDED_SLEEP. Non-trivial: a call that '
             'returns with an undrained request, or with only timers pending, or after a yield. Distinct = distinct tapes.',
        rule_more='Later additions: as C01 (crowds; satisfied timeout after an armed one); event queue depth 3, warmed-up event queue and a sleeper calling fibre_run before arming its timeout in the interrupt harness.',
        stages=[
            dict(h='fibre', mode='rc', what='random histories', params=dict(oracle=3),
                 quick=dict(cases=200000, len=500), thorough=dict(cases=5000000, len=500)),
        ] + [
            dict(h='fibconc', mode='enum', what='ISR, script %d, handlers %s, %s granularity' % (sc, hs, 'every-access' if ea else 'atomic'),
                 params=dict(dict(mode=1, script=sc, every_access=ea, oracle=3, handlers=len(hs), evdepth=ed), **{'h%d' % i: v for i, v in enumerate(hs)}),
                 workers=2, common=dict(split=3, maxruns=1500000))
            for (sc, hs, ea, ed) in [(0, (3, 1), 1, 1), (0, (4, 3, 2), 0, 2), (1, (3, 0), 1, 1), (1, (5, 3, 1), 0, 1), (2, (2, 3), 1, 2), (2, (1, 2, 0), 0, 1), (3, (3, 3), 1, 1), (3, (4, 4, 1), 0, 2)]
        ] + [
            dict(h='fibconc', mode='rc', what='random scripts and interrupt placements (ISR)', params=dict(oracle=3, mode=1),
                 quick=dict(cases=200000, len=500), thorough=dict(cases=12000000, len=500)),
        ],
        require={'returns-with-undrained-atomic-request': 1000, 'returns-with-only-timers-pending': 1000, 'returns-after-a-yield': 1000,
                 'request-completed-inside-fibre_scheduler_next': 1000},
        assumptions=['interrupt-timing half: every placement of up to 3 handlers (nested <= 2) inside fibre_scheduler_next for fixed scripts, random beyond; '
                     'rule A: a request that completed while the dispatched fibre entry point ran cannot have been drained in that call, so the result must be the current time; '
                     'rule B: a request that completed after the main context\'s last modifying atomic access (in this call) to locations the interrupt contexts access atomically, and before its last atomic access to them, is undrained and visible to the final check',
                     'free-running threads are excluded from C03 by its own quantifier (interrupt handlers)'],
    ),
    'C04': dict(
        title='Message queue is safe for many concurrent senders and one receiver',
        rule='case = scenario (depth, senders, messages per sender, claim retries, whether the first message is held, pre-cycled '
             'indices) + a schedule, both from the choice tape. The real messageq.c object code is compiled with '
             '-fsanitize=thread and linked against harness/isched/vrt.c, so every atomic operation is a scheduling point: THREADS mode '
             '= senders and receiver are coroutines, any of which may be pre-empted before any atomic operation (a weak CAS may also '
             'fail spuriously); ISR mode = senders are run-to-completion handlers nested (depth <= 2) inside the receiving main '
             'context, or the receiver is a handler inside a sending main context. enum stages enumerate every schedule of the stated '
             'scenario (optionally with a pre-emption bound); rc stages draw scenario and schedule. Oracle from call/return events '
             'only: exclusive ownership, inside storage and slot aligned, each sent message received once and intact, claim order, '
             'justified claim failure, conservation at quiescence, no access outside the storage. Non-trivial: two claims (or a claim '
             'and a release) overlap in time and the queue was full at some instant. Distinct = distinct tapes.',
        rule_more='Later additions: one case in eight pre-cycles 240-280 messages before the concurrent phase; one in twelve uses 4096-byte messages with depth 17-32 (slots beyond 64 KiB).',
        stages=[
            dict(h='mqconc', mode='enum', what='THREADS, 2 senders x 1 msg, depth 1, 1 retry, bounded pre-emptions (params.preempt)', params=dict(mode=0, depth=1, senders=2, msgs=1, retries=1, preempt=4, oracle=4),
                 common=dict(split=5, maxruns=400000), thorough=dict(params=dict(preempt=5), maxruns=6000000)),
            dict(h='mqconc', mode='enum', what='THREADS, 2 senders x 1 msg, depth 2, bounded pre-emptions (params.preempt)', params=dict(mode=0, depth=2, senders=2, msgs=1, retries=0, preempt=3, oracle=4),
                 common=dict(split=5, maxruns=400000), thorough=dict(params=dict(preempt=5, msgs=2), maxruns=6000000)),
            dict(h='mqconc', mode='enum', what='THREADS, 3 senders x 1 msg, depth 2, bounded pre-emptions (params.preempt)', params=dict(mode=0, depth=2, senders=3, msgs=1, retries=0, preempt=2, oracle=4),
                 common=dict(split=5, maxruns=400000), thorough=dict(params=dict(preempt=3), maxruns=6000000)),
            dict(h='mqconc', mode='enum', what='THREADS, 2 senders x 2 msgs, depth 1, 1 retry, bounded pre-emptions (params.preempt)', tiers=('thorough',),
                 params=dict(mode=0, depth=1, senders=2, msgs=2, retries=1, preempt=3, oracle=4), common=dict(split=5, maxruns=6000000)),
            dict(h='mqconc', mode='enum', what='THREADS, 3 senders x 1 msg, depth 1, 1 retry, bounded pre-emptions (params.preempt)', tiers=('thorough',),
                 params=dict(mode=0, depth=1, senders=3, msgs=1, retries=1, preempt=3, oracle=4), common=dict(split=5, maxruns=6000000)),
            dict(h='mqconc', mode='enum', what='THREADS, 2 senders x 2 msgs, depth 2, first message held, bounded pre-emptions (params.preempt)', tiers=('thorough',),
                 params=dict(mode=0, depth=2, senders=2, msgs=2, retries=0, hold=1, preempt=3, oracle=4), common=dict(split=5, maxruns=6000000)),
            dict(h='mqconc', mode='enum', what='ISR, 2 nested senders interrupt the receiver, depth 1, all placements', params=dict(mode=1, roles=0, depth=1, senders=2, msgs=1, retries=0, oracle=4),
                 common=dict(split=4, maxruns=400000)),
            dict(h='mqconc', mode='enum', what='ISR, 3 nested senders x 2 msgs interrupt the receiver, depth 2', params=dict(mode=1, roles=0, depth=2, senders=3, msgs=2, retries=0, oracle=4),
                 common=dict(split=4, maxruns=400000)),
            dict(h='mqconc', mode='enum', what='ISR, receiver and a sender interrupt a sending main context, depth 2', params=dict(mode=1, roles=1, depth=2, senders=2, msgs=2, retries=0, oracle=4),
                 common=dict(split=4, maxruns=400000)),
            dict(h='mqconc', mode='enum', what='ISR at every-access granularity, 3 nested senders x 1 msg, depth 1', params=dict(mode=1, roles=0, depth=1, senders=3, msgs=1, retries=0, every_access=1, oracle=4),
                 common=dict(split=4, maxruns=400000)),
            dict(h='mqconc', mode='enum', what='ISR, 4 senders of rising priority nested to depth 3, depth 1', params=dict(mode=1, roles=0, depth=1, senders=4, msgs=1, retries=0, nest=3, oracle=4),
                 common=dict(split=4, maxruns=600000)),
            dict(h='mqconc', mode='rc', what='random scenarios and schedules', params=dict(oracle=4),
                 quick=dict(cases=100000, len=400), thorough=dict(cases=20000000, len=400)),
            dict(h='mqconc', mode='fuzz', what='libFuzzer (coverage-guided) over scenarios and schedules', params=dict(oracle=4),
                 quick=dict(runs=800000, max_len=400, len=400), thorough=dict(runs=60000000, max_len=400, len=400, timeout=3000)),
        ],
        require={'long-life (>= 240 messages before the concurrent phase)': 1000, 'slots beyond 64 KiB': 1000, 'claims-overlap-in-time': 1000, 'queue-full-at-some-instant': 1000, 'a-claim-failed': 1000, 'two-or-more-interrupts': 1000,
                 'preempted': 1000, 'threads-mode': 1000, 'isr-senders-interrupt-receiver': 1000, 'isr-receiver-interrupts-sender': 500},
        assumptions=['executions are sequentially consistent interleavings at atomic-operation granularity (C07 carries them to weaker machines)',
                     'releases follow receive order; one receiver'],
        technique='fuzzing of schedules: compiler-instrumented object code under a harness-owned scheduler; bounded-exhaustive schedule enumeration + rapidcheck random schedules; event-history oracle',
    ),
    'C05': dict(
        title='Ring buffer delivers each byte once, in order, for one producer and one consumer',
        rule='sequential stage (ASan, exact heap block): buf_len 2..65, indices pre-cycled anywhere, <=80 put/putchar/get/empty ops '
             'with all byte values (incl. >=0x80 through char) against a FIFO model. Concurrent stages: the real ringbuf.c object '
             'code compiled with -fsanitize=thread under harness/isched/vrt.c: THREADS mode = producer and consumer coroutines '
             'pre-empted before any atomic operation (ringbuf_putchar spins, a fairness rule keeps the consumer running); ISR mode = '
             'two producer handlers nested in the consumer, or two consumer handlers nested in the producer. enum stages enumerate '
             'every schedule of the stated scenario for every start offset; rc stages draw scenario and schedule. Oracle from '
             'call/return events: successful gets == successful puts in order (after a final drain), a failed put / an empty result '
             'only if the event times allow the buffer to have been full / empty during the call, every instrumented access inside '
             'the buffer, canaries intact. Non-trivial: buffer both full and empty at some point and a put overlapped a get. '
             'Distinct = distinct tapes.',
        rule_more='Later additions: custom stage = long hauls with every byte checked: 2^24 (quick) / 2^32+1000 (thorough) bytes through one ring of 3, 6, 7, 255, 65537 bytes; thorough: one lap of rings of 2^31, 2^31+5 and 2^32-1 bytes (lazily mapped).',
        stages=[
            dict(h='ringseq', mode='rc', what='sequential histories under ASan', quick=dict(cases=100000, len=260), thorough=dict(cases=3000000, len=260)),
            dict(h='ringseq', mode='custom', what='long hauls: 2^24 (quick) / 2^32 (thorough) bytes through one small ring; rings of 2^31 bytes and more (thorough)',
                 workers=10, common=dict(watchdog=0), quick=dict(params=dict(heavy=0)), thorough=dict(params=dict(heavy=1), timeout=3000)),
        ] + [
            dict(h='ringconc', mode='enum', what='THREADS len %d, 3 puts, 4 consumer ops, start offset %d, all schedules' % (L, pre),
                 params=dict(mode=0, len=L, puts=3, gets=4, pre=pre, empties=1, oracle=5), workers=4, common=dict(split=4, maxruns=2000000))
            for L in (2, 3) for pre in range(L)
        ] + [
            dict(h='ringconc', mode='enum', what='THREADS len 4, 4 puts, 5 consumer ops, start offset %d, bounded pre-emptions (params.preempt)' % pre, tiers=('thorough',),
                 params=dict(mode=0, len=4, puts=4, gets=5, pre=pre, empties=1, preempt=7, oracle=5), workers=4, common=dict(split=4, maxruns=4000000))
            for pre in range(4)
        ] + [
            dict(h='ringconc', mode='enum', what='THREADS len 3, 3 putchar (spinning), 4 consumer ops, start offset %d, bounded pre-emptions (params.preempt)' % pre, tiers=('thorough',),
                 params=dict(mode=0, len=3, puts=3, gets=4, pre=pre, putchar=1, preempt=6, oracle=5), workers=4, common=dict(split=4, maxruns=4000000))
            for pre in range(3)
        ] + [
            dict(h='ringconc', mode='enum', what='ISR roles %d, len 3, 4 puts, 4 gets, every access' % r,
                 params=dict(mode=1, roles=r, len=3, puts=4, gets=4, pre=2, every_access=1, oracle=5), workers=4, common=dict(split=4, maxruns=2000000))
            for r in (0, 1)
        ] + [
            dict(h='ringconc', mode='rc', what='random scenarios and schedules', params=dict(oracle=5),
                 quick=dict(cases=100000, len=300), thorough=dict(cases=20000000, len=300)),
            dict(h='ringconc', mode='fuzz', what='libFuzzer (coverage-guided) over scenarios and schedules', params=dict(oracle=5),
                 quick=dict(runs=800000, max_len=300, len=300), thorough=dict(runs=60000000, max_len=300, len=300, timeout=3000)),
        ],
        require={'buffer-was-full': 1000, 'buffer-was-empty': 1000, 'put-overlapped-get': 1000, 'putchar-spins-until-room': 500,
                 'isr-producer-interrupts-consumer': 500, 'isr-consumer-interrupts-producer': 500, 'byte-values>=0x80': 1000, 'index-wrapped': 1000, 'large-buffer-length': 500},
        assumptions=['one producer context and one consumer context (in ISR mode the interrupting side is split into two handlers of equal priority, which cannot nest)'],
        technique='property-based testing (FIFO model, ASan) + fuzzing of schedules: compiler-instrumented object code under a harness-owned scheduler, bounded-exhaustive and random',
    ),
    'C06': dict(
        title='Interrupt-context wake-ups and fibre events are never lost or duplicated',
        rule='case = a main-context script over three fibres (event handler with a 1-2 deep event queue, yielder, sleeper): fibre_run / '
             'fibre_kill / fibre_run_atomic / scheduler passes with advancing time, plus 1-3 interrupt contexts each doing '
             'fibre_run_atomic(f) or claim-fill-fibre_eventq_send (one or two events), plus the placement of those contexts - all '
             'from the choice tape. The real fibre.c, messageq.c and list.c object code is compiled with -fsanitize=thread and runs '
             'under harness/isched/vrt.c: ISR mode fires each handler as a nested function call before any atomic operation (or, '
             'every-access profile, before any instrumented memory access) of the code it interrupts, nesting depth 2; THREADS mode '
             'runs them as coroutines pre-empted at atomic operations. After the last interrupt the scheduler is called until idle '
             '(bounded). Oracle over the history: every accepted fibre_run_atomic(f) is followed by a dispatch of f that starts after '
             'it returned (unless a fibre_kill(f) returned later); dispatches <= reasons; the handler fibre receives exactly the '
             'events whose send returned true, each once and intact, in send order where unambiguous; quiescence is reached; and a '
             'sequential epilogue (kill all, fibre_run in a generated order, four passes) dispatches exactly in that order. enum '
             'stages enumerate every placement for fixed scripts. Non-trivial: an interrupt strictly inside fibre_scheduler_next / '
             'fibre_run / fibre_kill / fibre_run_atomic, or nested between another handler\'s claim and send. Distinct = distinct tapes.',
        rule_more='Later additions: event queue depth 1-3; one case in eight first passes 245-275 events through the queue sequentially; the sleeper may call fibre_run before arming its timeout. Events of 4096 bytes in 17-20 slots one case in sixteen.',
        stages=[
            dict(h='fibconc', mode='enum', what='ISR, script %d, handlers %s, %s granularity' % (sc, hs, 'every-access' if ea else 'atomic'),
                 params=dict(dict(mode=1, script=sc, every_access=ea, oracle=6, handlers=len(hs), evdepth=ed), **{'h%d' % i: v for i, v in enumerate(hs)}),
                 workers=2, common=dict(split=3, maxruns=1500000))
            for (sc, hs, ea, ed) in [(0, (3, 1), 1, 1), (0, (4, 3, 2), 0, 2), (1, (3, 0), 1, 1), (1, (5, 3, 1), 0, 1), (2, (2, 3), 1, 2), (2, (1, 2, 0), 0, 1), (3, (3, 3), 1, 1), (3, (4, 4, 1), 0, 2), (4, (1, 2), 1, 1), (4, (2, 1, 1), 0, 1)]
        ] + [
            dict(h='fibconc', mode='enum', what='THREADS, script 3, event sender + run_atomic thread, bounded pre-emptions (params.preempt)',
                 params=dict(mode=0, script=3, oracle=6, handlers=2, evdepth=1, h0=3, h1=1, preempt=2), workers=4,
                 common=dict(split=3, maxruns=1500000), thorough=dict(params=dict(preempt=3), maxruns=6000000)),
            dict(h='conconc', mode='enum', what='console fed by 2 interrupt-context injectors, every access, all placements', params=dict(mode=1, injectors=2, every_access=1, passes=3, oracle=6),
                 workers=4, common=dict(split=3, maxruns=1500000)),
            dict(h='conconc', mode='enum', what='console fed by an injector thread, bounded pre-emptions (params.preempt)', params=dict(mode=0, passes=3, preempt=2, oracle=6),
                 workers=2, common=dict(split=3, maxruns=1500000)),
            dict(h='conconc', mode='rc', what='console fed from interrupt / thread context, random', params=dict(oracle=6),
                 quick=dict(cases=20000, len=300), thorough=dict(cases=5000000, len=300)),
            dict(h='fibconc', mode='rc', what='random scripts, handlers, placements, both modes', params=dict(oracle=6),
                 quick=dict(cases=60000, len=500), thorough=dict(cases=12000000, len=500)),
            dict(h='fibconc', mode='fuzz', what='libFuzzer (coverage-guided) over scripts, handlers and placements', params=dict(oracle=6),
                 quick=dict(runs=300000, max_len=500, len=500), thorough=dict(runs=30000000, max_len=500, len=500, timeout=3000)),
        ],
        require={'event-queue-warmed-up (>= 245 events before the scenario)': 1000, 'event-slots-beyond-64-KiB': 1000, 'sleeper-calls-fibre_run-before-arming-its-timeout': 1000, 'interrupt-inside-fibre_scheduler_next': 1000, 'interrupt-inside-fibre_run': 200, 'interrupt-inside-fibre_kill': 100,
                 'interrupt-inside-fibre_run_atomic': 50, 'interrupt-nested-between-claim-and-send': 100, 'event-queue-full-path': 500,
                 'event-delivered': 1000, 'threads-mode': 1000, 'console-line-delivered': 1000, 'console-input-interleaved-with-scheduler': 1000},
        assumptions=['"is dispatched by a subsequent call" is checked as bounded eventuality: within 4*(3+requests)+8+yields passes after the last interrupt',
                     'a fibre_kill that returns after the request completed may withdraw it (the statement says "a later fibre_kill")',
                     'event order is asserted only where it is unambiguous (A sent completely before B was claimed)'],
        technique='fuzzing of interrupt placements and thread schedules: compiler-instrumented object code under a harness-owned scheduler; bounded-exhaustive placement enumeration + rapidcheck; history oracle',
    ),
    'C07': dict(
        title='Lock-free structures are data-race-free under the C11 memory model',
        rule='every execution generated for C04, C05 and C06 (same harnesses, same scenario and schedule generators, oracle=7): the library '
             'object code is compiled with -fsanitize=thread, so harness/isched/vrt.c sees every plain access and every atomic operation '
             'together with the memory order actually compiled in; it keeps a vector clock per context, a release clock per atomic '
             'location (release store starts a release sequence, RMWs continue it, acquire loads/RMWs join it, relaxed accesses transfer '
             'nothing except through fences, atomic_signal_fence orders nothing between contexts) and per-byte shadow state, and reports '
             'any plain access that conflicts with another context\'s plain or atomic access without happens-before. Interrupt handlers '
             'are treated as threads created at scenario start. Non-trivial: the execution contains a cross-context hand-over (payload '
             'written by one context and read by another, or a wake-up request). Distinct = distinct tapes. Thorough adds real pthreads '
             'under the real ThreadSanitizer.',
        rule_more='Later additions: as C04 / C06 (long-lived queues, slots beyond 64 KiB, warmed-up event queue).',
        stages=[
            dict(h='mqconc', mode='enum', what='message queue, THREADS, 2 senders x 1, depth 2, bounded pre-emptions (params.preempt)', params=dict(mode=0, depth=2, senders=2, msgs=1, retries=0, preempt=3, oracle=7),
                 workers=4, common=dict(split=5, maxruns=400000)),
            dict(h='mqconc', mode='enum', what='message queue, ISR every-access, 3 nested senders', params=dict(mode=1, roles=0, depth=1, senders=3, msgs=1, retries=0, every_access=1, oracle=7),
                 workers=4, common=dict(split=4, maxruns=400000)),
            dict(h='mqconc', mode='rc', what='message queue, random', params=dict(oracle=7), quick=dict(cases=40000, len=400), thorough=dict(cases=8000000, len=400)),
            dict(h='ringconc', mode='enum', what='ring buffer, THREADS len 3, 3 puts, 4 consumer ops, offset 2', params=dict(mode=0, len=3, puts=3, gets=4, pre=2, empties=1, oracle=7),
                 workers=4, common=dict(split=4, maxruns=2000000)),
            dict(h='ringconc', mode='rc', what='ring buffer, random', params=dict(oracle=7), quick=dict(cases=40000, len=300), thorough=dict(cases=8000000, len=300)),
            dict(h='fibconc', mode='enum', what='fibres, ISR script 0, event + run_atomic, every access', params=dict(mode=1, script=0, every_access=1, oracle=7, handlers=2, evdepth=1, h0=3, h1=1),
                 workers=2, common=dict(split=3, maxruns=1500000)),
            dict(h='fibconc', mode='enum', what='fibres, ISR script 4 (request queue full), every access', params=dict(mode=1, script=4, every_access=1, oracle=7, handlers=2, evdepth=1, h0=1, h1=2),
                 workers=2, common=dict(split=3, maxruns=1500000)),
            dict(h='fibconc', mode='rc', what='fibres, random, both modes', params=dict(oracle=7), quick=dict(cases=40000, len=500), thorough=dict(cases=8000000, len=500)),
            dict(h='conconc', mode='rc', what='console fed from interrupt / thread context, random', params=dict(oracle=7), quick=dict(cases=20000, len=300), thorough=dict(cases=1000000, len=300)),
            dict(h='mqconc_fb', mode='rc', what='message queue, fallback atomics (atomic.h without <stdatomic.h>), random', params=dict(oracle=7), quick=dict(cases=20000, len=400), thorough=dict(cases=1000000, len=400)),
            dict(h='ringconc_fb', mode='rc', what='ring buffer, fallback atomics, random', params=dict(oracle=7), quick=dict(cases=20000, len=300), thorough=dict(cases=1000000, len=300)),
            dict(h='fibconc_fb', mode='rc', what='fibres, fallback atomics, random', params=dict(oracle=7), quick=dict(cases=20000, len=500), thorough=dict(cases=1000000, len=500)),
            dict(h='tsan', mode='script', what='real pthreads under the real ThreadSanitizer (8 processes x 20 s)', tiers=('thorough',), workers=8,
                 thorough=dict(params=dict(ms=20000), timeout=900)),
        ],
        require={'payload-handed-over': 1000, 'event-delivered': 1000, 'threads-mode': 1000, 'isr-mode': 1000},
        assumptions=['executions are sequentially consistent interleavings; non-SC behaviours of weakened atomics are not generated - race freedom is decided as stated and the carry-over to weak machines is the DRF-SC theorem',
                     'happens-before follows the C11 rules as implemented in vrt.c; a failed CAS is accounted with its success order (can hide, never invent, a race)',
                     'library calls such as memset in the *_init functions are not instrumented; they only run in single-context set-up, which happens-before every context'],
        technique='fuzzing of schedules with an in-harness vector-clock (FastTrack-style) happens-before detector driven by the compiled-in memory orders; real ThreadSanitizer soak in the thorough tier',
    ),
    'C08': dict(
        title='Protothreads resume exactly where they blocked and relay child results',
        rule='case = a program (Hypothesis recursive strategy): main protothread + up to 3 child threads forming a DAG; statements Emit, '
             'assignments to persistent (static) variables, if/else, bounded for/while (nesting <= 3, private loop variables), PT_YIELD, '
             'PT_WAIT, PT_WAIT_UNTIL with an observable self-advancing condition, PT_EXIT(_ON), PT_FAIL(_ON), PT_SPAWN followed by '
             'Emit(PT_CHILD_OK() ? a : b), PT_SPAWN_AND_CHECK, PT_CALL; single-statement if/else/for bodies are sometimes written without braces; one blocking macro per source line, no switch. The program is '
             'emitted as C over the real include/librfn/protothreads.h, compiled with gcc -O0 and driven until exit (optionally PT_INIT and '
             'a second round); its per-invocation trace (events, return code) must equal that of a reference interpreter over the same '
             'AST in which every thread is a Python generator. Non-trivial: a blocking point executed inside a loop inside a '
             'conditional, or a child spawned more than once, or a failing child. Distinct = distinct ASTs (SHA-1).',
        rule_more='Later additions: the arguments of PT_WAIT_UNTIL / PT_EXIT_ON / PT_FAIL_ON are, 3 times in 8, the same truth value as a 64-bit word with a zero low half, a double below 1, or a pointer. PT_SPAWN_AND_CHECK / PT_CALL statements are emitted without braces of the generator\'s own, also as the unbraced body of else-less ifs and of loops.',
        stages=[
            dict(h='pt', mode='script', what='generated programs vs reference interpreter',
                 quick=dict(params=dict(cases=4800), timeout=900), thorough=dict(params=dict(cases=120000), timeout=3400)),
        ],
        require={'a PT_* condition that is a 64-bit word, a double or a pointer': 200, 'blocking point inside a loop inside a conditional': 20, 'a child spawned more than once': 100, 'a failing child': 50,
                 'child yield/wait relayed upward': 100, 'two rounds (PT_INIT after exit)': 100, 'unbraced single-statement body': 100},
        assumptions=['the grammar covers compositions without goto, switch and do/while+continue; one PT_* blocking macro per source line',
                     'gcc -O0 of the sandbox compiles the macros; a different compiler is not examined'],
        technique='property-based testing of programs: Hypothesis-generated ASTs, compiled against the real macros, compared with a reference interpreter (differential)',
        level_note='trusts the reference interpreter (Python generators), gcc and Hypothesis; programs outside the grammar are not examined',
    ),
    'C09': dict(
        title='Linked list behaves as a sequence under every order of operations',
        rule='case = choice tape decoded into (node keys, scaled so that the comparator returns differences of up to 2^30, <=60 list ops over 6 nodes / 3 lists / 2 iterators); custom stage = one list of 255..200000 nodes (membership and iterator position around 2^8 / 2^16 / the end, removal at depth, traversal, sorted insertion); '
             'enum stage = every op sequence of the given length over 3 nodes / 2 lists / 1 iterator. '
             'Non-trivial: the history contains a head/tail insertion after the last or only element was removed, '
             'or an iterator operation at/past the end, or a sorted insert among equal keys. '
             'Distinct = distinct consumed tapes (FNV-1a), unioned over workers.',
        stages=[
            dict(h='list', mode='rc', what='random histories',
                 quick=dict(cases=600000, len=260), thorough=dict(cases=5000000, len=260)),
            dict(h='list', mode='custom', what='one long list (255 ... 200000 nodes)', workers=4),
            dict(h='list', mode='enum', what='all op sequences, reduced domain',
                 params=dict(nodes=3, lists=2, iters=1, keys=2),
                 quick=dict(params=dict(ops=4)), thorough=dict(params=dict(ops=5))),
        ],
        require={'insert-after-list-emptied': 100, 'insert-after-tail-removed': 100, 'next-past-the-end': 100,
                 'iterator-insert-at-end': 100, 'iterator-remove-last': 100, 'sorted-insert-among-equals': 100,
                 'comparator-results-beyond-16-bits': 1000, 'list-longer-than-65536-nodes': 5},
        assumptions=['an iterator is used only until its list is mutated by other means (conservative reading)',
                     'a node is inserted only while it is a member of no list (scope of the property)'],
    ),
}
