"""props - which harnesses exist and which stages decide which property."""

HARNESS = {
    'list': dict(cpp=['h/h_list.cpp'], c=['adp/adp_list.c'], repo=['librfn/list.c']),
}

PROPS = {
    'C09': dict(
        title='Linked list behaves as a sequence under every order of operations',
        rule='case = choice tape decoded into (node keys, <=60 list ops over 6 nodes / 3 lists / 2 iterators); '
             'enum stage = every op sequence of the given length over 3 nodes / 2 lists / 1 iterator. '
             'Non-trivial: the history contains a head/tail insertion after the last or only element was removed, '
             'or an iterator operation at/past the end, or a sorted insert among equal keys. '
             'Distinct = distinct consumed tapes (FNV-1a), unioned over workers.',
        stages=[
            dict(h='list', mode='rc', what='random histories',
                 quick=dict(cases=200000, len=260), thorough=dict(cases=5000000, len=260)),
            dict(h='list', mode='enum', what='all op sequences, reduced domain',
                 params=dict(nodes=3, lists=2, iters=1, keys=2),
                 quick=dict(params=dict(ops=4)), thorough=dict(params=dict(ops=5))),
        ],
        require={'insert-after-list-emptied': 100, 'insert-after-tail-removed': 100, 'next-past-the-end': 100,
                 'iterator-insert-at-end': 100, 'iterator-remove-last': 100, 'sorted-insert-among-equals': 100},
        assumptions=['an iterator is used only until its list is mutated by other means (conservative reading)',
                     'a node is inserted only while it is a member of no list (scope of the property)'],
    ),
}
