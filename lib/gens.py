"""gens - sources generated at build time (a pure function of VERIF_SEED)."""
import os, random


def gen_constexpr(build_dir, seed):
    """C16: const_pop / const_lssb in a constant-expression context (static const initialisers)."""
    r = random.Random(seed * 7 + 1)
    vals = [0, 2**64 - 1]
    vals += [1 << a for a in range(64)]
    for a in range(0, 64, 3):
        for b in range(a + 1, 64, 5):
            vals.append((1 << a) | (1 << b))
    for a in range(0, 64, 5):
        for b in range(a, 64, 7):
            vals.append(((1 << (b - a + 1)) - 1) << a)
    vals += [r.getrandbits(64) for _ in range(1200)]
    vals += [r.getrandbits(64) & r.getrandbits(64) & r.getrandbits(64) for _ in range(300)]  # sparse
    vals += [r.getrandbits(r.randrange(1, 64)) << r.randrange(0, 32) & (2**64 - 1) for _ in range(300)]
    path = os.path.join(build_dir, 'gen_constexpr.c')
    with open(path, 'w') as f:
        f.write('/* generated: every initialiser below must be folded by the compiler (static storage) */\n')
        f.write('#include <stdint.h>\n#include "librfn/constexpr.h"\n')
        f.write('const unsigned ce_n = %d;\n' % len(vals))
        f.write('const uint64_t ce_in[] = {\n' + ''.join('\t0x%016xull,\n' % v for v in vals) + '};\n')
        f.write('const long long ce_pop[] = {\n' + ''.join('\tconst_pop(0x%016xull),\n' % v for v in vals) + '};\n')
        f.write('const long long ce_lssb[] = {\n' + ''.join('\tconst_lssb(0x%016xull),\n' % v for v in vals) + '};\n')
    return [path]
