"""vlib - build, run, merge, evidence and verdict logic shared by every check."""
import os, sys, json, time, subprocess, shutil, hashlib, re, glob, shlex

VERIF = os.path.dirname(os.path.dirname(os.path.abspath(__file__)))
REPO = os.environ.get('VERIF_REPO', '/repo')            # override only for sensitivity tests on scratch trees
BUILD = os.environ.get('VERIF_BUILD_DIR', os.path.join(VERIF, 'build'))
EVID = os.environ.get('VERIF_EVIDENCE_DIR', os.path.join(VERIF, 'evidence'))
REPLAYS = os.environ.get('VERIF_REPLAY_DIR', os.path.join(VERIF, 'replays'))
NPROC = int(os.environ.get('VERIF_JOBS', os.cpu_count() or 4))
GUARD = 'LIBRFN_VERIF'
H = os.path.join(VERIF, 'harness')

from props import PROPS, HARNESS  # noqa: E402

UBSAN = ['-fsanitize=undefined', '-fno-sanitize=pointer-overflow,shift-base',
         '-fno-sanitize-recover=undefined']
ASAN = ['-fsanitize=address', '-fno-omit-frame-pointer']
CCOMMON = ['-g', '-O1', '-Wall', '-Wno-unused-function', '-I' + os.path.join(REPO, 'include'),
           '-I' + os.path.join(H, 'core'), '-D' + GUARD]


class HarnessError(Exception):
    pass


def sh(cmd, **kw):
    r = subprocess.run(cmd, stdout=subprocess.PIPE, stderr=subprocess.STDOUT, text=True, **kw)
    if r.returncode != 0:
        raise HarnessError('command failed (%d): %s\n%s' % (r.returncode, ' '.join(cmd), r.stdout[-4000:]))
    return r.stdout


def par(cmds):
    """run independent build commands concurrently"""
    procs = [(c, subprocess.Popen(c, stdout=subprocess.PIPE, stderr=subprocess.STDOUT, text=True)) for c in cmds]
    for c, p in procs:
        out, _ = p.communicate()
        if p.returncode != 0:
            raise HarnessError('command failed (%d): %s\n%s' % (p.returncode, ' '.join(c), out[-4000:]))


def newer(target, deps):
    if not os.path.exists(target):
        return False
    t = os.path.getmtime(target)
    return all(os.path.getmtime(d) <= t for d in deps)


def build_engine():
    d = os.path.join(BUILD, 'core')
    os.makedirs(d, exist_ok=True)
    obj = os.path.join(d, 'engine.o')
    deps = [os.path.join(H, 'core', 'engine.cpp'), os.path.join(H, 'core', 'tape.hpp')]
    if not newer(obj, deps):
        sh(['g++', '-std=gnu++17', '-g', '-O1', '-c', deps[0], '-o', obj])
    return obj


def build_harness(name):
    """(re)build one harness binary from /repo's current working tree"""
    spec = HARNESS[name]
    if spec.get('kind') == 'script':
        return os.path.join(H, spec['script'])
    d = os.path.join(BUILD, 'h_' + name)
    os.makedirs(d, exist_ok=True)
    eng = build_engine()
    san = []
    if spec.get('asan', True):
        san += ASAN
    if spec.get('ubsan', True):
        san += UBSAN
    san += spec.get('extra_san', [])
    cflags = CCOMMON + san + spec.get('cflags', []) + shlex.split(os.environ.get('VERIF_EXTRA_CFLAGS', ''))
    cmds, objs = [], []
    cc = spec.get('cc', 'gcc')
    for src in spec.get('repo', []):
        o = os.path.join(d, 'repo_' + os.path.basename(src) + '.o')
        cmds.append([cc] + cflags + spec.get('repo_cflags', []) + ['-c', os.path.join(REPO, src), '-o', o])
        objs.append(o)
    for src in spec.get('c', []):
        o = os.path.join(d, os.path.basename(src) + '.o')
        cmds.append([cc] + cflags + ['-c', os.path.join(H, src), '-o', o])
        objs.append(o)
    if spec.get('gen'):
        import gens
        seed = int(os.environ.get('VERIF_SEED', '1'))
        for src in getattr(gens, spec['gen'])(d, seed):
            o = src + '.o'
            cmds.append([cc] + cflags + ['-c', src, '-o', o])
            objs.append(o)
    cxx = 'g++' if cc == 'gcc' else 'clang++'
    for src in spec.get('cpp', []):
        o = os.path.join(d, os.path.basename(src) + '.o')
        cmds.append([cxx, '-std=gnu++17'] + cflags + ['-c', os.path.join(H, src), '-o', o])
        objs.append(o)
    par(cmds)
    exe = os.path.join(d, name)
    sh([cxx] + san + ['-o', exe] + objs + [eng, '-lrapidcheck', '-lpthread'] + spec.get('libs', []))
    return exe


def build_fuzz(name):
    """libFuzzer build of a tape harness (clang, ASan+UBSan); returns None if clang cannot build this tree"""
    spec = HARNESS[name]
    d = os.path.join(BUILD, 'fz_' + name)
    os.makedirs(d, exist_ok=True)
    isched = '-fsanitize=thread' in spec.get('repo_cflags', [])
    if isched:
        # schedule fuzzing: the library keeps its thread instrumentation (call-backs land in vrt.c), plus coverage feedback;
        # no ASan (coroutine stacks), no sanitizer runtime except UBSan
        san = ['-fsanitize=undefined', '-fno-sanitize=pointer-overflow,shift-base', '-fno-sanitize-recover=undefined']
        repo_san = san + ['-fsanitize=fuzzer-no-link,thread']
    else:
        san = ['-fsanitize=address,undefined', '-fno-sanitize=pointer-overflow,shift-base', '-fno-sanitize-recover=undefined', '-fno-omit-frame-pointer']
        repo_san = san + ['-fsanitize=fuzzer-no-link']
    base = ['-g', '-O1', '-I' + os.path.join(REPO, 'include'), '-I' + os.path.join(H, 'core'), '-D' + GUARD] + spec.get('cflags', [])
    cmds, objs = [], []
    for src in spec.get('repo', []):
        o = os.path.join(d, 'repo_' + os.path.basename(src) + '.o')
        cmds.append(['clang'] + base + repo_san + ['-c', os.path.join(REPO, src), '-o', o])
        objs.append(o)
    for src in spec.get('c', []):
        o = os.path.join(d, os.path.basename(src) + '.o')
        cmds.append(['clang'] + base + san + ['-c', os.path.join(H, src), '-o', o])
        objs.append(o)
    for src in spec.get('cpp', []) + ['core/fuzz_entry.cpp']:
        o = os.path.join(d, os.path.basename(src) + '.o')
        cmds.append(['clang++', '-std=gnu++17'] + base + san + ['-c', os.path.join(H, src), '-o', o])
        objs.append(o)
    try:
        par(cmds)
        exe = os.path.join(d, 'fz_' + name)
        sh(['clang++'] + san + ['-fsanitize=fuzzer', '-o', exe] + objs + spec.get('libs', []))
    except HarnessError as e:
        return None, str(e)[-1500:]
    return exe, ''


def run_env(spec):
    env = dict(os.environ)
    env['ASAN_OPTIONS'] = spec.get('asan_options', 'detect_leaks=0:abort_on_error=1:allocator_may_return_null=1')
    env['UBSAN_OPTIONS'] = 'print_stacktrace=1:abort_on_error=1'
    return env


# ---------------------------------------------------------------------------
# replay files
def parse_replay(path):
    d = dict(harness=None, params={}, tape=[], enumerating=False, comments=[], extra=[])
    for line in open(path):
        line = line.rstrip('\n')
        if line.startswith('#'):
            d['comments'].append(line)
            continue
        p = line.split()
        if not p:
            continue
        if p[0] == 'harness':
            d['harness'] = p[1]
        elif p[0] == 'param':
            k, v = p[1].split('=', 1)
            d['params'][k] = v
        elif p[0] == 'enumerating':
            d['enumerating'] = True
        elif p[0] == 'tape':
            d['tape'] = [int(x) for x in p[2:2 + int(p[1])]]
        else:
            d['extra'].append(line)  # payload of non-tape harnesses (e.g. the AST of a generated program)
    return d


def write_replay(path, d, extra_comments=()):
    with open(path, 'w') as f:
        f.write('# librfn-verif replay\n')
        f.write('harness %s\n' % d['harness'])
        for k in sorted(d['params']):
            f.write('param %s=%s\n' % (k, d['params'][k]))
        if d['enumerating']:
            f.write('enumerating 1\n')
        if d.get('extra'):
            for line in d['extra']:
                f.write(line + '\n')
        else:
            f.write('tape %d %s\n' % (len(d['tape']), ' '.join(map(str, d['tape']))))
        for c in list(d['comments'])[1:] + list(extra_comments):
            f.write(c if c.startswith('#') else '# ' + c)
            f.write('\n')


def replay_once(exe, spec, path, timeout=60, want_kind=False):
    """returns (failed, output[, kind]) with kind in pass / fail / hang / died"""
    try:
        if spec.get('kind') == 'script':
            cmd = [spec.get('interp', 'python3'), exe, 'replay', path, '--repo', REPO]
        else:
            # cases of the long-running custom stages (a 2^32-byte haul, a 131 075-node chain) legitimately take minutes
            slow = any(l.startswith(('param haul=', 'param deep=', 'param longlist=')) for l in open(path))
            cmd = [exe, 'replay', path, '--watchdog', '0' if slow else '1']
            if slow:
                timeout = max(timeout, 900)
        r = subprocess.run(cmd, stdout=subprocess.PIPE, stderr=subprocess.STDOUT, text=True, timeout=timeout,
                           env=run_env(spec), errors='replace')
        kind = 'pass' if r.returncode == 0 else 'fail' if r.returncode == 1 else 'hang' if r.returncode == 4 else \
            'error' if r.returncode == 2 else 'died'
        if kind == 'error':  # the replay machinery itself could not run the case: never a verdict
            raise HarnessError('replay of %s could not be run: %s' % (path, r.stdout[-500:]))
        res = (r.returncode != 0, r.stdout)
    except subprocess.TimeoutExpired as e:
        kind = 'hang'
        res = (True, 'TIMEOUT after %ds' % timeout)
    return res + (kind,) if want_kind else res


def minimise_crash(exe, spec, d, workdir, budget=160):
    """delta-debug a tape whose case kills the process (no in-process shrinking possible)"""
    tmp = os.path.join(workdir, 'min.case')
    calls = [0]

    want = [None]

    def fails(tape):
        if calls[0] >= budget:
            return False
        calls[0] += 1
        dd = dict(d, tape=tape, comments=[])
        write_replay(tmp, dd)
        f, o, kind = replay_once(exe, spec, tmp, timeout=30, want_kind=True)
        if want[0] is None:
            want[0] = kind
        return f and kind == want[0]  # keep the kind of failure: an assert must not drift into a hang

    tape = list(d['tape'])
    if not fails(tape):
        return d, calls[0], False
    if want[0] == 'hang':
        budget = min(budget, 40)  # every replay of a hang costs a watchdog period
    # shortest failing prefix
    lo, hi = 0, len(tape)
    while lo < hi:
        mid = (lo + hi) // 2
        if fails(tape[:mid]):
            hi = mid
        else:
            lo = mid + 1
    tape = tape[:hi]
    changed = True
    while changed and calls[0] < budget:
        changed = False
        n = len(tape)
        chunk = max(1, n // 2)
        while chunk >= 1 and calls[0] < budget:
            i = 0
            while i < len(tape):
                cand = tape[:i] + tape[i + chunk:]
                if len(cand) < len(tape) and fails(cand):
                    tape = cand
                    changed = True
                else:
                    i += chunk
            chunk //= 2
        for i in range(len(tape)):
            if tape[i] and calls[0] < budget:
                cand = tape[:i] + [0] + tape[i + 1:]
                if fails(cand):
                    tape = cand
                    changed = True
                elif tape[i] > 1:
                    cand = tape[:i] + [tape[i] // 2] + tape[i + 1:]
                    if fails(cand):
                        tape = cand
                        changed = True
    return dict(d, tape=tape), calls[0], True


# ---------------------------------------------------------------------------
def known_findings():
    """entries of known_findings.txt with status 'known' (fixed entries suppress nothing)"""
    p = os.path.join(VERIF, 'known_findings.txt')
    out = []
    if os.path.exists(p):
        for line in open(p):
            line = line.strip()
            m = re.match(r'known:\s+property=(\S+)\s+signature=(.*?)\s+::\s+(.*)$', line)
            if m:
                out.append(dict(property=m.group(1), status='known', signature=m.group(2), what=m.group(3)))
    return out


FEAT = 2


def stage_jobs(pid, tier, si, stage, seed, workdir):
    """expand one stage into worker command lines"""
    name = stage['h']
    spec = HARNESS[name]
    try:
        exe = build_harness(name)
    except HarnessError as e:
        # The *_fb variants compile the library against the fallback half of include/librfn/atomic.h. A tree that uses an
        # atomic_*_explicit operation whose fallback macro the header does not (correctly) provide cannot be built that way:
        # that is no verdict on the property, and the same stage on the native atomics still runs.
        if name.endswith('_fb') and os.path.exists(os.path.join(BUILD, 'h_' + name[:-3])):
            stage['_fz_skipped'] = 'the fallback-atomics (-D__STDC_NO_ATOMICS__) build of this tree failed, stage skipped: ' + str(e)[-300:]
            return []
        raise
    if stage['mode'] == 'fuzz' and '_fz' not in stage:
        fz, why = build_fuzz(name)
        stage['_fz'] = fz
        stage['_fz_skipped'] = '' if fz else 'clang could not build this tree for the libFuzzer stage: ' + why
    cfg = dict(stage.get('common', {}))
    cfg.update(stage.get(tier, {}))
    params = dict(stage.get('params', {}))
    params.update(cfg.get('params', {}))
    # generator feature level: harness features that change what a tape means are gated on it, so that saved
    # replay files (which record the level they were found at; none recorded = 0) keep their meaning
    params.setdefault('feat', FEAT)
    workers = int(cfg.get('workers', stage.get('workers', NPROC)))
    workers = max(1, min(workers, NPROC))
    jobs = []
    pargs = []
    for k in sorted(params):
        pargs += ['--param', '%s=%s' % (k, params[k])]
    mode = stage['mode']
    for w in range(workers):
        out = os.path.join(workdir, 's%d_w%d' % (si, w))
        if mode == 'rc':
            total = int(cfg['cases'])
            n = total // workers + (1 if w < total % workers else 0)
            if n == 0:
                continue
            wseed = (seed * 1000003 + si * 7919 + w * 104729 + 17) & 0x7fffffffffffffff
            cmd = [exe, 'rc', '--seed', str(wseed), '--cases', str(n), '--maxsize', str(cfg.get('maxsize', 100)),
                   '--len', str(cfg.get('len', 100)), '--out', out] + pargs
        elif mode == 'enum':
            cmd = [exe, 'enum', '--depth', str(cfg.get('depth', 100000)), '--worker', str(w), '--workers',
                   str(workers), '--split', str(cfg.get('split', 3)), '--maxruns', str(cfg.get('maxruns', 0)),
                   '--out', out] + pargs
        elif mode == 'fuzz':
            fz = stage.get('_fz')
            if fz is None:
                continue
            total = int(cfg['runs'])
            n = total // workers
            wseed = ((seed * 1000003 + si * 7919 + w * 104729 + 17) & 0x7fffffff) or 1
            corpus = out + '_corpus'
            os.makedirs(corpus, exist_ok=True)
            if w % 2 == 0:  # half of the workers start from a few valid (non-trivial) cases, half from nothing
                try:  # on a broken tree this may crash or hang: the fuzzer then simply starts from an empty corpus
                    subprocess.run([exe, 'corpus', '--seed', str(wseed), '--cases', '400', '--len', str(cfg.get('len', 100)), '--out', corpus,
                                    '--maxruns', '24'] + pargs, stdout=subprocess.DEVNULL, stderr=subprocess.DEVNULL, timeout=60,
                                   env=run_env(spec))
                except subprocess.TimeoutExpired:
                    pass
            cmd = [fz, '-seed=%d' % wseed, '-runs=%d' % n, '-max_len=%d' % cfg.get('max_len', 512), '-artifact_prefix=' + out + '_art_',
                   '-print_final_stats=1', '-timeout=25', '-rss_limit_mb=3000', corpus]
            extra_env = dict(VERIF_FUZZ_PARAMS=','.join('%s=%s' % (k, params[k]) for k in sorted(params)), VERIF_FUZZ_OUT=out)
        elif mode == 'custom':
            cmd = [exe, 'custom', '--worker', str(w), '--workers', str(workers), '--seed', str(seed),
                   '--out', out] + pargs
        elif mode == 'script':
            wseed = (seed * 1000003 + si * 7919 + w * 104729 + 17) & 0x7fffffff
            cmd = [spec.get('interp', 'python3'), exe, 'run', '--seed', str(wseed), '--worker', str(w),
                   '--workers', str(workers), '--out', out, '--repo', REPO, '--build', os.path.join(BUILD, 'h_' + name)]
            for k in sorted(params):
                cmd += ['--param', '%s=%s' % (k, params[k])]
        else:
            raise HarnessError('unknown mode ' + mode)
        if 'watchdog' in cfg and mode != 'script':
            cmd += ['--watchdog', str(cfg['watchdog'])]
        jobs.append(dict(cmd=cmd, out=out, stage=si, spec=spec, exe=exe, name=name, params=params, mode=mode,
                         extra_env=extra_env if mode == 'fuzz' else None,
                         timeout=cfg.get('timeout', 3000 if tier == 'thorough' else 900)))
    return jobs


def run_jobs(jobs, stop_on_failure=True):
    pending = list(jobs)
    running = []
    done = []
    failed_seen = False
    while pending or running:
        while pending and len(running) < NPROC and not (failed_seen and stop_on_failure):
            j = pending.pop(0)
            j['log'] = open(j['out'] + '.log', 'w')
            j['t0'] = time.time()
            env = run_env(j['spec'])
            if j.get('extra_env'):
                env.update(j['extra_env'])
            j['proc'] = subprocess.Popen(j['cmd'], stdout=j['log'], stderr=subprocess.STDOUT, env=env)
            running.append(j)
        if failed_seen and stop_on_failure:
            for j in pending:
                j['rc'] = None
                j['skipped'] = True
                done.append(j)
            pending = []
        time.sleep(0.05)
        for j in list(running):
            rc = j['proc'].poll()
            if rc is None:
                if time.time() - j['t0'] > j['timeout']:
                    j['proc'].kill()
                    j['proc'].wait()
                    j['rc'] = None
                    j['timed_out'] = True
                elif failed_seen and stop_on_failure:
                    j['proc'].kill()
                    j['proc'].wait()
                    j['rc'] = None
                    j['skipped'] = True
                else:
                    continue
            else:
                j['rc'] = rc
                if rc != 0 and j['mode'] == 'fuzz':
                    j['log'].flush()
                    rc = j['rc'] = fuzz_post(j)
                if rc != 0:
                    failed_seen = True
            j['wall'] = time.time() - j['t0']
            j['log'].close()
            running.remove(j)
            done.append(j)
    return done


def fuzz_post(j):
    """a libFuzzer worker stopped: turn its artifact into the replay format, or decide that it was load noise"""
    if os.path.exists(j['out'] + '.fail'):
        return 1  # the oracle inside the target failed and wrote the case itself
    arts = sorted(glob.glob(j['out'] + '_art_crash-*') + glob.glob(j['out'] + '_art_leak-*'))
    if not arts:
        j['inconclusive'] = 'libFuzzer stopped without a crash artifact (timeout / oom / slow unit): load noise'
        return 0
    trace = j['out'] + '.trace'
    env = run_env(j['spec'])
    env.update(j['extra_env'])
    env['VERIF_FUZZ_TRACE'] = trace
    env.pop('VERIF_FUZZ_OUT', None)
    try:
        subprocess.run([j['cmd'][0], arts[0]], stdout=subprocess.DEVNULL, stderr=subprocess.DEVNULL, env=env, timeout=60)
    except subprocess.TimeoutExpired:
        pass
    tape = [int(x) for x in open(trace).read().split()] if os.path.exists(trace) else []
    d = dict(harness=j['name'], params={k: str(v) for k, v in j['params'].items()}, tape=tape, enumerating=False,
             comments=['# librfn-verif replay (process died: libFuzzer artifact %s)' % os.path.basename(arts[0])], extra=[])
    write_replay(j['out'] + '.crash', d)
    return 1


def merge_distinct(exe_any, files):
    files = [f for f in files if os.path.exists(f) and os.path.getsize(f) > 0]
    if not files:
        return 0
    out = sh([exe_any, 'merge'] + files)
    return int(out.strip().splitlines()[-1])


def first_failure_line(out):
    for line in out.splitlines():
        if line.startswith('REPLAY-FAIL') or 'ERROR: AddressSanitizer' in line or 'runtime error' in line \
                or 'Assertion' in line or 'TIMEOUT' in line or 'hang' in line:
            return line.strip()
    return (out.strip().splitlines() or ['(no output)'])[-1]


def handle_failure(pid, j, workdir):
    """returns dict(kind='violation'|'known'|'unconfirmed', ...)"""
    exe, spec = j['exe'], j['spec']
    failf = j['out'] + '.fail'
    crashf = j['out'] + '.crash'
    note = []
    if os.path.exists(failf):
        d = parse_replay(failf)
        src = 'in-process failure (shrunk by rapidcheck / first failing enumerated case)'
    elif os.path.exists(crashf):
        d = parse_replay(crashf)
        d, calls, ok = minimise_crash(exe, spec, d, workdir)
        src = 'process died (crash/assert/sanitizer/hang); minimised by subprocess delta debugging in %d replays' % calls
    elif j['mode'] in ('rc', 'enum') and j.get('rc') not in (0, 1, 2, None) and not j.get('_journalled'):
        # the worker died without being able to dump its case (smashed stack, SIGKILL...): run it again, this time
        # journalling every case before it starts, and take the last one
        j['_journalled'] = True
        jf = j['out'] + '.journal'
        try:
            subprocess.run(j['cmd'] + ['--journal', jf], stdout=subprocess.DEVNULL, stderr=subprocess.DEVNULL, env=run_env(j['spec']),
                           timeout=j['timeout'])
        except subprocess.TimeoutExpired:
            pass
        if os.path.exists(jf) and not os.path.exists(crashf):
            shutil.copy(jf, crashf)
        return handle_failure(pid, j, workdir)
    else:
        tail = ''
        try:
            tail = open(j['out'] + '.log', errors='replace').read()[-3000:]
        except Exception:
            pass
        raise HarnessError('worker exited %s without a failure or crash file: %s\n%s' % (j.get('rc'), ' '.join(j['cmd']), tail))
    os.makedirs(os.path.join(REPLAYS, pid), exist_ok=True)
    key = hashlib.sha1(('%s|%s|%s|%s' % (d['harness'], sorted(d['params'].items()), d['tape'], d.get('extra'))).encode()).hexdigest()[:12]
    path = os.path.join(REPLAYS, pid, key + '.case')
    tmp = os.path.join(workdir, 'confirm.case')
    write_replay(tmp, d)
    fails, outs = 0, []
    for _ in range(3):
        f, o = replay_once(exe, spec, tmp)
        fails += 1 if f else 0
        outs.append(o)
    msg = first_failure_line(outs[-1])
    extra = ['# origin: ' + src, '# confirmed: failed %d/3 library-free replays' % fails, '# message: ' + msg]
    extra += ['# ' + l for l in outs[-1].splitlines()[:200]]
    d['comments'] = ['# librfn-verif replay']
    if fails < 3:
        return dict(kind='unconfirmed', msg=msg, fails=fails)
    for kf in known_findings():
        if kf.get('property') == pid and kf.get('status') == 'known' and re.search(kf['signature'], msg + '\n' + outs[-1]):
            return dict(kind='known', msg=msg, what=kf['what'])
    write_replay(path, d, extra)
    return dict(kind='violation', msg=msg, path=path)


def run_property(pid, tier):
    t0 = time.time()
    prop = PROPS[pid]
    seed = int(os.environ.get('VERIF_SEED', '1'))
    workdir = os.path.join(BUILD, 'run_' + pid)
    shutil.rmtree(workdir, ignore_errors=True)
    os.makedirs(workdir, exist_ok=True)
    os.makedirs(EVID, exist_ok=True)
    evid_path = os.path.join(EVID, pid + '.json')
    try:
        return _run_property(pid, tier, prop, seed, workdir, evid_path, t0)
    except HarnessError as e:
        print('HARNESS-ERROR property=%s: %s' % (pid, e))
        return 2


def _run_property(pid, tier, prop, seed, workdir, evid_path, t0):
    stages = [s for s in prop['stages'] if tier in s.get('tiers', ('quick', 'thorough'))]
    if os.environ.get('VERIF_ONLY'):  # development aid: run only the stages of one harness
        stages = [s for s in stages if s['h'] == os.environ['VERIF_ONLY']]
    jobs = []
    for si, st in enumerate(stages):
        jobs += stage_jobs(pid, tier, si, st, seed, workdir)
    # committed regression tier: every saved case for this property is replayed first
    regress = []
    for path in ([] if os.environ.get('VERIF_NO_REGRESSION') else sorted(glob.glob(os.path.join(VERIF, 'replays', pid, '*.case')))):  # (development aid: judge the fresh search alone)
        d = parse_replay(path)
        if d['harness'] in HARNESS:
            exe = build_harness(d['harness'])
            f, o = replay_once(exe, HARNESS[d['harness']], path)
            regress.append(dict(path=path, failed=f, msg=first_failure_line(o)))
    done = run_jobs(jobs)
    violations, knowns, unconfirmed = [], [], []
    for r in regress:
        if r['failed']:
            # a saved case fails again: confirm 3x
            d = parse_replay(r['path'])
            exe = build_harness(d['harness'])
            if all(replay_once(exe, HARNESS[d['harness']], r['path'])[0] for _ in range(2)):
                violations.append(dict(kind='violation', msg='saved regression case fails again: ' + r['msg'], path=r['path']))
    seen_paths = set(v['path'] for v in violations)
    # one failure per stage is triaged (the one with the shortest tape); the rest share its root cause
    # far more often than not, and a second root cause shows up on the next run once the first is fixed
    best = {}
    for j in done:
        if j.get('rc') not in (0, None):
            n = 1 << 30
            for ext in ('.fail', '.crash'):
                if os.path.exists(j['out'] + ext):
                    n = len(parse_replay(j['out'] + ext)['tape'])
                    break
            if j['stage'] not in best or n < best[j['stage']][0]:
                best[j['stage']] = (n, j)
    for si in sorted(best):
        j = best[si][1]
        if True:
            res = handle_failure(pid, j, workdir)
            if res['kind'] == 'violation':
                if res['path'] not in seen_paths:
                    seen_paths.add(res['path'])
                    violations.append(res)
            elif res['kind'] == 'known':
                knowns.append(res)
            else:
                unconfirmed.append(res)
    # merge statistics
    engines = []
    total_eval = total_nt = total_distinct = 0
    classes = {}
    sums = {}
    samples = []
    all_exh = True
    inconclusive = []
    any_exe = None
    for si, st in enumerate(stages):
        sj = [j for j in done if j['stage'] == si]
        ev = nt = 0
        exh = st['mode'] in ('enum', 'custom')
        hashes = []
        direct_distinct = 0
        scls = {}
        if st.get('_fz_skipped'):
            inconclusive.append(st['_fz_skipped'])
        for j in sj:
            if j.get('inconclusive'):
                inconclusive.append('stage %d: %s' % (si, j['inconclusive']))
            if j.get('timed_out'):
                inconclusive.append('stage %d worker timed out after %ds' % (si, j['timeout']))
            sp = j['out'] + '.stats.json'
            if not os.path.exists(sp):
                exh = False
                continue
            try:
                s = json.load(open(sp))
            except ValueError:  # worker was stopped (another worker found a failure) while writing
                exh = False
                continue
            ev += s['evaluations']
            nt += s['nontrivial']
            exh = exh and s.get('exhaustive', False)
            for k, v in s.get('classes', {}).items():
                scls[k] = scls.get(k, 0) + v
            for k, v in s.get('sums', {}).items():
                sums[k] = sums.get(k, 0) + v
            if 'distinct_direct' in s:
                direct_distinct += s['distinct_direct']
            else:
                hashes.append(j['out'] + '.hashes')
            if len(samples) < 8 and s.get('samples'):
                for smp in s['samples'][:2 if len(sj) > 1 else 4]:
                    if len(samples) < 8:
                        smp = dict(smp)
                        smp['stage'] = '%s/%s' % (st['h'], st['mode'])
                        samples.append(smp)
            if HARNESS[st['h']].get('kind') != 'script':
                any_exe = j['exe']
        if hashes and not any_exe:
            any_exe = build_harness(next(n for n in HARNESS if HARNESS[n].get('kind') != 'script'))
        dist = direct_distinct + (merge_distinct(any_exe, hashes) if hashes else 0)
        eff = dict(st.get('params', {}))
        eff.update(dict(st.get('common', {}), **st.get(tier, {})).get('params', {}))
        engines.append(dict(harness=st['h'], mode=st['mode'], params=eff, evaluations=ev,
                            nontrivial=nt, distinct_nontrivial=dist, exhaustive=exh, classes=scls,
                            what=st.get('what', '')))
        total_eval += ev
        total_nt += nt
        total_distinct += dist
        all_exh = all_exh and exh
        for k, v in scls.items():
            classes[k] = classes.get(k, 0) + v
    wall = time.time() - t0
    starved = []
    if not violations:
        for k, mn in prop.get('require', {}).items():
            if classes.get(k, 0) < mn:
                starved.append('%s=%d (<%d)' % (k, classes.get(k, 0), mn))
    ev = dict(property_id=pid, tier=tier, seed=seed, level='exploration',
              coverage=dict(evaluations=total_eval, distinct_nontrivial=total_distinct, rule=prop['rule'] + (' ' + prop['rule_more'] if prop.get('rule_more') else ''),
                            samples=samples, classes=classes, counters=sums, exhaustive=bool(any(e['exhaustive'] for e in engines)),
                            exhaustive_scope=[e['what'] or e['harness'] for e in engines if e['exhaustive']],
                            engines=engines, nontrivial_total=total_nt,
                            regression_cases_replayed=len(regress), inconclusive=inconclusive,
                            known_findings_hit=[k['what'] for k in knowns],
                            unconfirmed_failures=[u['msg'] for u in unconfirmed]),
              assumptions=prop.get('assumptions', []), wall_s=round(wall, 2), violations=len(violations))
    with open(evid_path, 'w') as f:
        json.dump(ev, f, indent=1)
        f.write('\n')
    # keep the latest evidence of each tier as well (evidence/<ID>.json always holds the most recent run)
    tdir = os.path.join(os.path.dirname(evid_path), tier)
    os.makedirs(tdir, exist_ok=True)
    shutil.copy(evid_path, os.path.join(tdir, pid + '.json'))
    seen = set()
    for k in knowns:
        if k['what'] not in seen:
            seen.add(k['what'])
            print('KNOWN-FINDING: property=%s %s' % (pid, k['what']))
    for u in unconfirmed:
        print('NOTE: a failure did not reproduce 3/3 in replay and is not reported: %s' % u['msg'])
    if violations:
        for v in violations:
            print('VIOLATION property=%s replay=%s' % (pid, v['path']))
            print('  ' + v['msg'])
        return 1
    if starved:
        print('HARNESS-ERROR property=%s: generator starved classes the check depends on: %s' % (pid, ', '.join(starved)))
        return 2
    mn = prop.get('min_nontrivial', 2)
    if total_distinct < mn and not knowns:
        print('HARNESS-ERROR property=%s: only %d distinct non-trivial cases (< %d)' % (pid, total_distinct, mn))
        return 2
    print('OK property=%s tier=%s evaluations=%d distinct_nontrivial=%d wall=%.1fs%s' % (
        pid, tier, total_eval, total_distinct, wall, ' (inconclusive parts: %s)' % inconclusive if inconclusive else ''))
    return 0


def replay(pid, path):
    d = parse_replay(path)
    if d['harness'] not in HARNESS:
        print('unknown harness in replay file:', d['harness'])
        return 2
    try:
        exe = build_harness(d['harness'])
    except HarnessError as e:
        print('HARNESS-ERROR', e)
        return 2
    failed, out = replay_once(exe, HARNESS[d['harness']], path)
    print(out)
    if failed:
        print('VIOLATION property=%s replay=%s' % (pid, os.path.abspath(path)))
        return 1
    return 0


def setup():
    try:
        build_engine()
    except HarnessError as e:
        print('HARNESS-ERROR', e)
        return 2
    print('setup ok')
    return 0
