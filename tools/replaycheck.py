#!/usr/bin/env python3
"""replaycheck.py - do the saved regression cases still mean what they meant?

A replay file is a choice tape; a later harness change could silently change what the tape decodes to (the
generator feature level, `param feat=`, exists to prevent that).  This tool proves it for every file under
replays/: each `fixed:` commit listed in known_findings.txt is reverted, one at a time, in a scratch worktree
(outside /repo and /verif, removed afterwards), and every saved case of that property is replayed against it.
A saved case is healthy if it fails against at least one reverted fix and passes on the current tree.

  tools/replaycheck.py            (prints one line per case; exit 1 if a case has lost its meaning)
"""
import os, re, sys, glob, shutil, subprocess, tempfile

VERIF = os.path.dirname(os.path.dirname(os.path.abspath(__file__)))


# properties through which one defect can be visible
GROUPS = [{'C01', 'C02', 'C03', 'C06'}, {'C13', 'C14'}, {'C04', 'C06', 'C07'}]


def sh(cmd, **kw):
    return subprocess.run(cmd, stdout=subprocess.PIPE, stderr=subprocess.STDOUT, text=True, **kw)


def main():
    fixes = []
    for l in open(os.path.join(VERIF, 'known_findings.txt')):
        m = re.match(r'fixed: property=(C\d+) ([0-9a-f]+) ', l)
        if m:
            fixes.append((m.group(1), m.group(2)))
    cases = {}
    for f in sorted(glob.glob(os.path.join(VERIF, 'replays', 'C*', '*.case'))):
        cases.setdefault(os.path.basename(os.path.dirname(f)), []).append(f)
    status = {f: dict(fails_under=[], passes_now=None) for fs in cases.values() for f in fs}
    build = tempfile.mkdtemp(prefix='rv_build_', dir='/tmp')
    env = dict(os.environ, VERIF_BUILD_DIR=build, VERIF_EVIDENCE_DIR=os.path.join(build, 'ev'), VERIF_REPLAY_DIR=os.path.join(build, 'rp'))
    try:
        for pid, fs in cases.items():
            for f in fs:
                r = sh([os.path.join(VERIF, 'check'), pid, '--replay', f], env=env, cwd=VERIF)
                status[f]['passes_now'] = r.returncode == 0
        for pid, commit in fixes:
            wt = tempfile.mkdtemp(prefix='rv_wt_', dir='/tmp')
            os.rmdir(wt)
            sh([os.path.join(VERIF, 'tools', 'mkworktree.sh'), wt])
            try:
                r = sh(['git', '-C', wt, 'revert', '-n', commit])
                if r.returncode != 0:
                    print('cannot revert %s cleanly: %s' % (commit, r.stdout[-200:]))
                    continue
                e2 = dict(env, VERIF_REPO=wt)
                # the same defect can be visible through neighbouring properties: try the cases of the whole group
                for p2, fs in cases.items():
                    if p2 != pid and not any({p2, pid} <= g for g in GROUPS):
                        continue
                    for f in fs:
                        r = sh([os.path.join(VERIF, 'check'), p2, '--replay', f], env=e2, cwd=VERIF)
                        if r.returncode == 1:
                            status[f]['fails_under'].append(commit)
            finally:
                sh(['git', '-C', '/repo', 'worktree', 'remove', '--force', wt])
                shutil.rmtree(wt, ignore_errors=True)
    finally:
        shutil.rmtree(build, ignore_errors=True)
    bad = 0
    for f, st in sorted(status.items()):
        ok = st['passes_now'] and st['fails_under']
        bad += not ok
        print('%-7s %s: passes on the current tree: %s; fails with these fixes reverted: %s' % (
            'ok' if ok else 'STALE', os.path.relpath(f, VERIF), st['passes_now'], ' '.join(st['fails_under']) or 'none'))
    return 1 if bad else 0


if __name__ == '__main__':
    sys.exit(main())
