#!/bin/bash
# mkworktree.sh <dir> - a scratch git worktree of /repo (outside /repo and /verif) with the generated
# autotools files copied in and configured, so that `make check` works there.
set -e
d="$1"
git -C /repo worktree add -q "$d" HEAD
cd "$d"
for f in configure Makefile.in aclocal.m4 ar-lib compile config.guess config.sub depcomp install-sh missing test-driver; do cp -p /repo/$f . ; done
cp -rp /repo/m4/. m4/
./configure >/dev/null 2>&1
echo "worktree ready: $d"
