#!/bin/bash
# refind.sh - revert each "fix:" commit in a scratch worktree (outside /repo and /verif, removed afterwards) and run the owning
# check's fresh search with the committed regression replays hidden: every fixed defect must be found again.
while read pid commit; do
  wt=/tmp/refind_wt
  rm -rf $wt; /verif/tools/mkworktree.sh $wt >/dev/null 2>&1
  git -C $wt revert -n $commit >/dev/null 2>&1 || { echo "$pid $commit cannot revert"; continue; }
  out=$(cd /verif && VERIF_REPO=$wt VERIF_BUILD_DIR=/tmp/refind_b VERIF_EVIDENCE_DIR=/tmp/refind_b/ev VERIF_REPLAY_DIR=/tmp/refind_b/rp VERIF_NO_REGRESSION=1 ./check $pid quick 2>&1 | tail -3 | tr '\n' ' ' | cut -c1-260)
  echo "$pid $commit: $out"
  git -C /repo worktree remove --force $wt >/dev/null 2>&1
  rm -rf /tmp/refind_b
done <<LIST
C19 9566be6
C13 4cc7638
C13 afc3482
C14 d0c731c
C14 856b75f
C01 d2369cb
C15 80c0d32
C15 915018d
C15 9938e94
C04 4293b20
LIST
