#!/usr/bin/env python3
"""seedsweep.py - detection stability: re-run every seeded change's own check with other VERIF_SEED values.
  tools/seedsweep.py 2 3        -> writes seeded/<name>/meta.json key 'other_seeds' and prints a summary"""
import os, sys, json, glob, shutil, subprocess, tempfile, time

VERIF = os.path.dirname(os.path.dirname(os.path.abspath(__file__)))
import re
only = os.environ.get('SWEEP_ONLY')  # optional regex over the change names
seeds = [int(x) for x in sys.argv[1:]] or [2]
summary = {}
for m in sorted(glob.glob(os.path.join(VERIF, 'seeded', '*', 'meta.json'))):
    d = json.load(open(m))
    name = d['name']
    if only and not re.match(only, name):
        continue
    patch = os.path.join(os.path.dirname(m), 'patch.diff')
    owners = [p for p, r in d.get('checks', {}).items() if r.startswith('CAUGHT')]
    if not owners:
        continue
    pid = d['property'] if d.get('property') in owners else owners[0]
    res = d.get('other_seeds', {})
    for sd in seeds:
        key = '%s@seed%d' % (pid, sd)
        if key in res:
            continue
        t = tempfile.mkdtemp(prefix='sweep_%s_' % name, dir='/tmp')
        try:
            repo = os.path.join(t, 'repo')
            os.makedirs(repo)
            for sub in ('include', 'librfn'):
                shutil.copytree(os.path.join('/repo', sub), os.path.join(repo, sub))
            subprocess.run(['patch', '-s', '-p1', '-d', repo, '-i', patch], check=True)
            env = dict(os.environ, VERIF_REPO=repo, VERIF_BUILD_DIR=os.path.join(t, 'b'), VERIF_EVIDENCE_DIR=os.path.join(t, 'e'),
                       VERIF_REPLAY_DIR=os.path.join(t, 'r'), VERIF_SEED=str(sd))
            # the committed regression replays would catch some changes regardless of the seed: hide them
            env['VERIF_NO_REGRESSION'] = '1'
            r = subprocess.run([os.path.join(VERIF, 'check'), pid, 'quick'], env=env, stdout=subprocess.PIPE, stderr=subprocess.STDOUT, text=True)
            res[key] = 'CAUGHT' if r.returncode == 1 else 'MISSED' if r.returncode == 0 else 'ERROR rc=%d' % r.returncode
        finally:
            shutil.rmtree(t, ignore_errors=True)
        print(name, key, res[key], flush=True)
    d['other_seeds'] = res
    json.dump(d, open(m, 'w'), indent=1)
    summary[name] = res
bad = {k: v for k, v in summary.items() if any(x != 'CAUGHT' for x in v.values())}
print('not caught at every seed:', json.dumps(bad, indent=1))
