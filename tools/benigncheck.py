#!/usr/bin/env python3
"""benigncheck.py - the opposite of seedcheck.py: a sub-agent's semantics-PRESERVING change (refactoring, correct
relaxation) must NOT make any check raise an alarm.

  tools/benigncheck.py /tmp/seed_out/R1a --props C04,C07,C10

The patch is applied to a scratch copy of /repo's sources (VERIF_REPO); `make check` is confirmed in a scratch
worktree; each listed check must exit 0.  Kept as /verif/seeded/benign/<name>/ (patch.diff, notes.json, meta.json)."""
import os, sys, json, shutil, subprocess, tempfile, time, argparse

VERIF = os.path.dirname(os.path.dirname(os.path.abspath(__file__)))


def sh(cmd, **kw):
    return subprocess.run(cmd, stdout=subprocess.PIPE, stderr=subprocess.STDOUT, text=True, **kw)


def main():
    ap = argparse.ArgumentParser()
    ap.add_argument('dir')
    ap.add_argument('--props', required=True)
    ap.add_argument('--tier', default='quick')
    ap.add_argument('--skip-confirm', action='store_true')
    a = ap.parse_args()
    src = a.dir.rstrip('/')
    name = os.path.basename(src)
    patch = os.path.join(src, 'patch.diff')
    notes = json.load(open(os.path.join(src, 'notes.json'))) if os.path.exists(os.path.join(src, 'notes.json')) else {}
    confirm, ran, results = {}, [], {}
    if not a.skip_confirm:
        wt = tempfile.mkdtemp(prefix='wt_verify_', dir='/tmp')
        os.rmdir(wt)
        sh([os.path.join(VERIF, 'tools', 'mkworktree.sh'), wt])
        try:
            r = sh(['git', '-C', wt, 'apply', patch])
            confirm['applies'] = r.returncode == 0
            r = sh(['make', '-C', wt, '-j8', 'check'])
            npass = [l for l in r.stdout.splitlines() if l.startswith('# PASS:')]
            nfail = [l for l in r.stdout.splitlines() if l.startswith('# FAIL:')]
            confirm['suite_ok'] = bool(npass) and npass[-1].split()[-1] == '17' and nfail[-1].split()[-1] == '0'
            ran.append('make check on the patched tree: %s %s' % (npass[-1] if npass else '?', nfail[-1] if nfail else '?'))
        finally:
            sh(['git', '-C', '/repo', 'worktree', 'remove', '--force', wt])
            shutil.rmtree(wt, ignore_errors=True)
    for p in a.props.split(','):
        d = tempfile.mkdtemp(prefix='benign_%s_' % name, dir='/tmp')
        try:
            repo = os.path.join(d, 'repo')
            os.makedirs(repo)
            for sub in ('include', 'librfn'):
                shutil.copytree(os.path.join('/repo', sub), os.path.join(repo, sub))
            r = sh(['patch', '-p1', '-d', repo, '-i', patch])
            if r.returncode != 0:
                results[p] = 'PATCH-FAILED'
                continue
            env = dict(os.environ, VERIF_REPO=repo, VERIF_BUILD_DIR=os.path.join(d, 'build'), VERIF_EVIDENCE_DIR=os.path.join(d, 'ev'),
                       VERIF_REPLAY_DIR=os.path.join(d, 'replays'))
            t0 = time.time()
            r = sh([os.path.join(VERIF, 'check'), p, a.tier], env=env)
            lines = r.stdout.strip().splitlines()
            if r.returncode == 0:
                results[p] = 'QUIET (%.0fs)' % (time.time() - t0)
            elif r.returncode == 1:
                results[p] = 'ALARM (%.0fs) %s' % (time.time() - t0, next((l.strip() for l in lines if l.startswith('  ')), '')[:300])
            else:
                results[p] = 'ERROR rc=%d %s' % (r.returncode, ' | '.join(lines[-3:])[:400])
            ran.append('./check %s %s against the patched sources: %s' % (p, a.tier, results[p][:100]))
        finally:
            shutil.rmtree(d, ignore_errors=True)
    out = os.path.join(VERIF, 'seeded', 'benign', name)
    os.makedirs(out, exist_ok=True)
    for f in ('patch.diff', 'notes.json'):
        if os.path.exists(os.path.join(src, f)):
            shutil.copy(os.path.join(src, f), os.path.join(out, f))
    meta = dict(name=name, kind='semantics-preserving change (false-alarm probe)', what_changed=notes.get('what_changed', ''),
                why_properties_still_hold=notes.get('why_properties_still_hold', ''), confirmed=confirm, checks=results, what_i_ran=ran)
    prev = os.path.join(out, 'meta.json')
    if os.path.exists(prev) and a.skip_confirm:
        old = json.load(open(prev))
        meta['confirmed'] = old.get('confirmed', {})
        oc = old.get('checks', {})
        oc.update(results)
        meta['checks'] = oc
    json.dump(meta, open(prev, 'w'), indent=1)
    print(name, json.dumps(confirm), json.dumps(results))


if __name__ == '__main__':
    main()
