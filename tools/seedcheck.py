#!/usr/bin/env python3
"""seedcheck.py - confirm a sub-agent's seeded change and run the checks against it.

  tools/seedcheck.py /tmp/seed_out/C04a [--props C04,C07] [--tier quick]

1. in a scratch worktree (outside /repo and /verif): the patch applies, `make check` still reports 17 PASS,
   demo.sh fails with the change and passes without it;
2. every listed property's check is run against a scratch copy of the patched sources (VERIF_REPO) - equivalent to
   `git -C /repo apply` + check + `git -C /repo checkout -- .` but safe while background runs read /repo;
3. the change is kept as /verif/seeded/<name>/ (patch.diff, demo.c, demo.sh, meta.json).
"""
import os, sys, json, shutil, subprocess, tempfile, time, argparse

VERIF = os.path.dirname(os.path.dirname(os.path.abspath(__file__)))


def sh(cmd, **kw):
    return subprocess.run(cmd, stdout=subprocess.PIPE, stderr=subprocess.STDOUT, text=True, **kw)


def main():
    ap = argparse.ArgumentParser()
    ap.add_argument('dir')
    ap.add_argument('--props', default='')
    ap.add_argument('--tier', default='quick')
    ap.add_argument('--skip-confirm', action='store_true')
    a = ap.parse_args()
    src = a.dir.rstrip('/')
    name = os.path.basename(src)
    notes = json.load(open(os.path.join(src, 'notes.json'))) if os.path.exists(os.path.join(src, 'notes.json')) else {}
    prop = notes.get('property', name[:3])
    props = [p for p in a.props.split(',') if p] or [prop]
    patch = os.path.join(src, 'patch.diff')
    ran = []
    confirm = {}
    if not a.skip_confirm:
        wt = tempfile.mkdtemp(prefix='wt_verify_', dir='/tmp')
        os.rmdir(wt)
        r = sh([os.path.join(VERIF, 'tools', 'mkworktree.sh'), wt])
        try:
            r = sh(['git', '-C', wt, 'apply', patch])
            confirm['applies'] = r.returncode == 0
            ran.append('git apply patch.diff in a scratch worktree: %s' % ('ok' if r.returncode == 0 else r.stdout[-300:]))
            r = sh(['make', '-C', wt, '-j8', 'check'])
            npass = [l for l in r.stdout.splitlines() if l.startswith('# PASS:')]
            nfail = [l for l in r.stdout.splitlines() if l.startswith('# FAIL:')]
            confirm['suite'] = (npass[-1] if npass else '?') + ' ' + (nfail[-1] if nfail else '?')
            confirm['suite_ok'] = bool(npass) and npass[-1].split()[-1] == '17' and nfail[-1].split()[-1] == '0'
            ran.append('make check on the patched tree: ' + confirm['suite'])
            demo = os.path.join(src, 'demo.sh')
            r1 = sh(['bash', demo, wt], cwd=src, timeout=600)
            confirm['demo_with_change'] = r1.returncode
            sh(['git', '-C', wt, 'checkout', '--', '.'])
            r2 = sh(['bash', demo, wt], cwd=src, timeout=600)
            confirm['demo_without_change'] = r2.returncode
            ran.append('demo.sh on the patched tree: exit %d; on the pristine tree: exit %d' % (r1.returncode, r2.returncode))
            confirm['demo_ok'] = r1.returncode != 0 and r2.returncode == 0
        finally:
            sh(['git', '-C', '/repo', 'worktree', 'remove', '--force', wt])
            shutil.rmtree(wt, ignore_errors=True)
    results = {}
    for p in props:
        d = tempfile.mkdtemp(prefix='seed_%s_' % name, dir='/tmp')
        try:
            repo = os.path.join(d, 'repo')
            os.makedirs(repo)
            for sub in ('include', 'librfn'):
                shutil.copytree(os.path.join('/repo', sub), os.path.join(repo, sub))
            r = sh(['patch', '-p1', '-d', repo, '-i', patch])
            if r.returncode != 0:
                results[p] = 'PATCH-FAILED ' + r.stdout[-200:]
                continue
            env = dict(os.environ, VERIF_REPO=repo, VERIF_BUILD_DIR=os.path.join(d, 'build'), VERIF_EVIDENCE_DIR=os.path.join(d, 'ev'),
                       VERIF_REPLAY_DIR=os.path.join(d, 'replays'))
            t0 = time.time()
            r = sh([os.path.join(VERIF, 'check'), p, a.tier], env=env)
            dt = time.time() - t0
            lines = r.stdout.strip().splitlines()
            if r.returncode == 1:
                msg = next((l.strip() for l in lines if l.startswith('  ')), '')
                results[p] = 'CAUGHT (%.0fs) %s' % (dt, msg[:300])
            elif r.returncode == 0:
                results[p] = 'MISSED (%.0fs)' % dt
            else:
                results[p] = 'ERROR rc=%d %s' % (r.returncode, ' | '.join(lines[-3:])[:400])
            ran.append('./check %s %s against the patched sources: %s' % (p, a.tier, results[p][:120]))
        finally:
            shutil.rmtree(d, ignore_errors=True)
    out = os.path.join(VERIF, 'seeded', name)
    os.makedirs(out, exist_ok=True)
    for f in os.listdir(src):
        if os.path.isfile(os.path.join(src, f)) and os.path.getsize(os.path.join(src, f)) < 200000:
            shutil.copy(os.path.join(src, f), os.path.join(out, f))
    meta = dict(name=name, property=prop, what_breaks=notes.get('what_breaks', ''), needs_to_manifest=notes.get('needs_to_manifest', ''),
                files_changed=notes.get('files_changed', []), why_tests_still_pass=notes.get('why_tests_still_pass', ''),
                confirmed=confirm, checks=results, what_i_ran=ran, origin='fresh sub-agent given only the property text and its own scratch worktree')
    prev = os.path.join(out, 'meta.json')
    if os.path.exists(prev) and a.skip_confirm:
        old = json.load(open(prev))
        meta['confirmed'] = old.get('confirmed', {})
        meta['what_i_ran'] = old.get('what_i_ran', []) + ran
        oc = old.get('checks', {})
        oc.update(results)
        meta['checks'] = oc
    json.dump(meta, open(prev, 'w'), indent=1)
    print(name, json.dumps(confirm), json.dumps(results))


if __name__ == '__main__':
    main()
