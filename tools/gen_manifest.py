#!/usr/bin/env python3
"""Regenerate /verif/MANIFEST.json from lib/props.py (single source of truth for what is claimed)."""
import json, os, sys, subprocess

VERIF = os.path.dirname(os.path.dirname(os.path.abspath(__file__)))
sys.path.insert(0, os.path.join(VERIF, 'lib'))
from props import PROPS, HARNESS  # noqa: E402

all_ids = [json.loads(l)['id'] for l in open(os.path.join(VERIF, 'properties.jsonl'))]

try:
    hook_commits = [l.split()[0] for l in subprocess.run(
        ['git', '-C', '/repo', 'log', '--format=%H %s', '--grep', '^verif-hook:'],
        stdout=subprocess.PIPE, text=True).stdout.splitlines()]
except Exception:
    hook_commits = []

def technique(p):
    if 'technique' in p:
        return p['technique']
    modes = set(s['mode'] for s in p['stages'])
    hs = set(s['h'] for s in p['stages'])
    parts = []
    if 'rc' in modes:
        parts.append('property-based testing: rapidcheck over choice tapes against a reference model / round-trip / differential oracle, with shrinking')
    if 'enum' in modes:
        parts.append('bounded-exhaustive enumeration of the same tapes')
    if 'custom' in modes:
        parts.append('exhaustive loop over the finite domain')
    if 'fuzz' in modes:
        parts.append('libFuzzer (coverage-guided) on the same oracle')
    if hs & {'mqconc', 'ringconc', 'fibconc', 'conconc'}:
        parts.append('generated schedules / interrupt placements: real object code behind -fsanitize=thread instrumentation under a harness-owned scheduler')
    return '; '.join(parts)


checks = []
for pid in all_ids:
    if pid not in PROPS:
        continue
    p = PROPS[pid]
    checks.append(dict(
        property_id=pid,
        quick_cmd='./check %s quick' % pid,
        thorough_cmd='./check %s thorough' % pid,
        evidence_file='/verif/evidence/%s.json' % pid,
        replay_cmd_template='./check %s --replay {path}' % pid,
        engine=', '.join(sorted(set('%s/%s' % (s['h'], s['mode']) for s in p['stages']))),
        level_claimed=dict(category='exploration', text=p.get('level_text', 'generated-input search against an executable oracle; bounded-exhaustive stages are complete for their stated bound and silent beyond it'), design_ref=p.get('design_ref', 'DESIGN.md section 4, ' + pid)),
        level_note=p.get('level_note', 'trusts the harness reference model / oracle, gcc, the sanitizer runtimes and rapidcheck; cases beyond the generated bounds are not examined'),
        technique=technique(p),
    ))

na = [dict(property_id=i, reason=PROPS.get(i, {}).get('na_reason', 'no check registered in this revision (harness not built yet; see DESIGN.md section 8)'))
      for i in all_ids if i not in PROPS]

m = dict(
    version=1,
    setup_cmd='./check --setup',
    hooks=dict(guard='LIBRFN_VERIF', enable='every check compiles the /repo sources it needs itself with -DLIBRFN_VERIF (see lib/vlib.py)',
               baseline_off_cmd='make -C /repo check', source_commits=hook_commits, add_only=True),
    engines=[dict(name=n, path='/verif/harness/' + (h.get('cpp') or h.get('c') or [h.get('script', '')])[0], serves_properties=sorted(
        pid for pid in PROPS if any(s['h'] == n for s in PROPS[pid]['stages'])), kind_free_text=h.get('about', 'choice-tape harness driven by harness/core/engine.cpp (rapidcheck / odometer / replay)'))
        for n, h in sorted(HARNESS.items())],
    checks=checks,
    not_applicable=na,
    notes='All checks are ./check <ID> <tier>; VERIF_SEED selects the seed. See DESIGN.md.',
)
json.dump(m, open(os.path.join(VERIF, 'MANIFEST.json'), 'w'), indent=1)
print('claimed:', [c['property_id'] for c in checks])
print('not_applicable:', [n['property_id'] for n in na])
