#!/usr/bin/env python3
"""mut.py - sensitivity test: apply each hand-written mutant (tools/mutants.py) to a scratch copy of
/repo's sources (outside /repo and /verif), run the property's check against the copy, report, clean up.

  tools/mut.py C09            all mutants of C09, quick tier
  tools/mut.py C09 name...    selected mutants
  tools/mut.py --tier thorough C09
"""
import os, sys, shutil, subprocess, tempfile, time

VERIF = os.path.dirname(os.path.dirname(os.path.abspath(__file__)))
sys.path.insert(0, os.path.dirname(os.path.abspath(__file__)))
from mutants import MUTANTS  # noqa: E402


def run(pid, name, edits, tier):
    d = tempfile.mkdtemp(prefix='mut_%s_' % pid, dir='/tmp')
    try:
        repo = os.path.join(d, 'repo')
        os.makedirs(repo)
        for sub in ('include', 'librfn'):
            shutil.copytree(os.path.join('/repo', sub), os.path.join(repo, sub))
        for (f, old, new) in edits:
            p = os.path.join(repo, f)
            s = open(p).read()
            if s.count(old) != 1:
                return 'BAD-MUTANT(%s: %d occurrences)' % (f, s.count(old)), 0
            open(p, 'w').write(s.replace(old, new))
        env = dict(os.environ, VERIF_REPO=repo, VERIF_BUILD_DIR=os.path.join(d, 'build'),
                   VERIF_EVIDENCE_DIR=os.path.join(d, 'ev'), VERIF_REPLAY_DIR=os.path.join(d, 'replays'))
        t0 = time.time()
        r = subprocess.run([os.path.join(VERIF, 'check'), pid, tier], env=env, stdout=subprocess.PIPE,
                           stderr=subprocess.STDOUT, text=True)
        dt = time.time() - t0
        out = r.stdout.strip().splitlines()
        if 'Traceback' in r.stdout:
            print(r.stdout)
        if r.returncode == 1:
            msg = next((l for l in out if l.startswith('  ')), '')
            return 'CAUGHT ' + msg.strip()[:150], dt
        if r.returncode == 0:
            return 'MISSED', dt
        return 'ERROR rc=%d %s' % (r.returncode, ' | '.join(out[:4] + out[-3:])[:1500]), dt
    finally:
        shutil.rmtree(d, ignore_errors=True)


def main():
    args = sys.argv[1:]
    tier = 'quick'
    if args and args[0] == '--tier':
        tier = args[1]
        args = args[2:]
    record = False
    if args and args[0] == '--record':
        record = True
        args = args[1:]
    pids = sorted(MUTANTS) if args[0] == 'all' else [args[0]]
    names = args[1:]
    import json
    rp = os.path.join(VERIF, 'tools', 'mutants_results.json')
    for pid in pids:
        for (name, edits) in MUTANTS[pid]:
            if names and name not in names:
                continue
            if record and os.environ.get('MUT_RESUME') and os.path.exists(rp):
                prev = json.load(open(rp)).get(pid, {}).get(name)
                if prev and not prev['result'].startswith('ERROR'):
                    continue
            res, dt = run(pid, name, edits, tier)
            print('%-4s %-34s %6.1fs  %s' % (pid, name, dt, res), flush=True)
            if record:
                allr = json.load(open(rp)) if os.path.exists(rp) else {}
                allr.setdefault(pid, {})[name] = dict(result=res, seconds=round(dt, 1), tier=tier)
                json.dump(allr, open(rp, 'w'), indent=1, sort_keys=True)


if __name__ == '__main__':
    main()
