#!/usr/bin/env python3
"""Regenerate section 8 of DESIGN.md (between the SENSITIVITY markers) from tools/mutants_results.json
(written by tools/mut.py --record) and seeded/*/meta.json."""
import os, json, glob, re

VERIF = os.path.dirname(os.path.dirname(os.path.abspath(__file__)))
EQUIV = {
    ('C05', 'get_publishes_before_load'): 'property holds: the always-empty slot means the producer cannot reach the slot being read before the next get publishes again; still race-free',
    ('C06', 'drain_if_not_while'): 'C06 holds (the wake-up is only delayed to the next call); it is a C01 violation and C01 catches it',
    ('C06', 'kill_no_drain'): 'C06 allows either outcome for a request racing a kill; the C01 check (kill withdraws pending requests) catches it',
    ('C11', 'preorder_thread_test'): 'equivalent: after the search loop prev->right is NULL or curr, so != NULL and == curr are the same test',
    ('C14', 'no_magic_check'): 'C14 does not require rejecting a bad form type (any negative/oversize/exact result is allowed); not asserted on purpose',
    ('C15', 'register_unsorted_after_sentinel'): 'equivalent: index 30 is only reachable at the sentinel, where the loop stops anyway',
    ('C19', 'count_shift3'): 'equivalent: at the detent the quarter-step count is even (parity invariant), so (n+1)>>2 == n>>2',
    ('C20', 'wrap_adjust_gt'): 'equivalent: head == 256 adds 256, which is 0 modulo the 256 slots',
    ('C07', 'ring_acq_rel_correct_weakening'): 'a *correct* weakening (release store): must not be reported, and is not',
    ('C07', 'correct_weakening_mq_send_release'): 'a *correct* weakening (release fetch_or on the flag word; the receiver still acquires): must not be reported, and is not',
    ('C07', 'correct_weakening_ring_acq_rel'): 'a *correct* weakening (acquire loads of the other index, release store of the own index): must not be reported, and is not',
    ('C07', 'correct_weakening_mq_counter_acq_rel'): 'a *correct* weakening (release on messageq_release, acquire on the claim of the counter): must not be reported, and is not',
}

out = ['## 8. Sensitivity: which check catches which change', '',
       '### 8.1 Hand-written mutants (`tools/mutants.py`, quick tier, scratch copy of the sources)', '',
       'Every mutant compiles. CAUGHT = the property\'s quick check exits 1 with a confirmed replay; the text is the first line of its report.', '',
       '| property | mutant | result |', '|---|---|---|']
res = {}
p = os.path.join(VERIF, 'tools', 'mutants_results.json')
if os.path.exists(p):
    res = json.load(open(p))
tot = caught = eq = 0
for pid in sorted(res):
    for name, r in res[pid].items():
        tot += 1
        txt = r['result']
        if txt.startswith('CAUGHT'):
            caught += 1
        key = (pid, name)
        if key in EQUIV and not txt.startswith('CAUGHT'):
            eq += 1
            txt = 'not reported — ' + EQUIV[key]
        txt = re.sub(r'/tmp/mut_[A-Za-z0-9_]+/repo/', '', txt).replace('|', '\\|')
        out.append('| %s | `%s` | %s |' % (pid, name, txt[:260]))
out += ['', '%d mutants: %d caught, %d equivalent / outside the property (argued above), %d missed.' % (tot, caught, eq, tot - caught - eq), '']
out += ['### 8.2 Changes written by fresh sub-agents (`/verif/seeded/`)', '',
        'Each agent saw only the text of one property and its own scratch worktree, and was asked for changes that still pass the 17 tests '
        'and need something specific to manifest. Each change was confirmed in a scratch worktree (patch applies, `make check` 17/17, the '
        'agent\'s demonstration fails with the change and passes without) before the checks were run against it '
        '(`tools/seedcheck.py`; details and commands in each `meta.json`). Seven rounds (variants a-j per property, plus cross-property '
        'changes X1-X5): from the second round on each agent was also given one-line summaries of what earlier agents had tried for the same '
        'property, to push it elsewhere; in rounds six and seven (g-j) it was additionally told, in general terms only, that the library is '
        'checked by property-based testing and fuzzing and asked to hide the breakage where random generators rarely go. The "checks" column '
        'shows the run recorded when the change was added (later generator extensions are described in 8.4); "MISSED" under a property other '
        'than the change\'s own means that the neighbouring check was run for information.', '',
        '| seeded change | breaks | needs | confirmed | checks |', '|---|---|---|---|---|']
for m in sorted(glob.glob(os.path.join(VERIF, 'seeded', '*', 'meta.json'))):
    d = json.load(open(m))
    c = d.get('confirmed', {})
    conf = 'yes' if c.get('suite_ok') and c.get('demo_ok') and c.get('applies') else 'NO: %s' % json.dumps(c)
    checks = '; '.join('%s: %s' % (k, re.sub(r'\s+', ' ', v)[:150]) for k, v in sorted(d.get('checks', {}).items()))
    out.append('| `%s` | %s | %s | %s | %s |' % (d['name'], d.get('what_breaks', '')[:200].replace('|', '\\|').replace('\n', ' '),
                                             d.get('needs_to_manifest', '')[:160].replace('|', '\\|').replace('\n', ' '), conf, checks.replace('|', '\\|')))
out.append('')
ben = sorted(glob.glob(os.path.join(VERIF, 'seeded', 'benign', '*', 'meta.json')))
if ben:
    out += ['### 8.2b Semantics-preserving changes written by sub-agents (false-alarm probes, `/verif/seeded/benign/`)', '',
            'The opposite experiment: agents were asked for non-trivial refactorings, restructurings and *correct* relaxations (e.g. seq_cst '
            'weakened to acquire/release where every plain access stays ordered) that keep every property true and pass the 17 tests. Every '
            'related check must stay quiet (`tools/benigncheck.py`).', '', '| change | what it does | checks |', '|---|---|---|']
    for m in ben:
        d = json.load(open(m))
        checks = '; '.join('%s: %s' % (k, v[:120]) for k, v in sorted(d.get('checks', {}).items()))
        out.append('| `%s` | %s | %s |' % (d['name'], d.get('what_changed', '')[:300].replace('|', '\\|').replace('\n', ' '), checks.replace('|', '\\|')))
    out.append('')
rows = []
for pid in sorted(set(os.path.basename(f)[:-5] for f in glob.glob(os.path.join(VERIF, 'evidence', 'quick', 'C*.json')))):
    def ev(t):
        f = os.path.join(VERIF, 'evidence', t, pid + '.json')
        return json.load(open(f)) if os.path.exists(f) else None
    q, th = ev('quick'), ev('thorough')
    def cell(e):
        if not e:
            return '-'
        c = e['coverage']
        return '%d cases, %d distinct non-trivial, %.0f s%s' % (c['evaluations'], c['distinct_nontrivial'], e['wall_s'],
                                                               ' (exhaustive: %d stages)' % len(c.get('exhaustive_scope', [])) if c.get('exhaustive_scope') else '')
    rows.append('| %s | %s | %s |' % (pid, cell(q), cell(th)))
if rows:
    out += ['### 8.3 What the two tiers covered on the repaired tree (latest runs in /verif, 16 cores)', '',
            '| property | quick | thorough |', '|---|---|---|'] + rows + ['']
extra = os.path.join(VERIF, 'tools', 'sensitivity_notes.md')
if os.path.exists(extra):
    out.append(open(extra).read())
text = '\n'.join(out)
dp = os.path.join(VERIF, 'DESIGN.md')
s = open(dp).read()
a, b = '<!-- SENSITIVITY:BEGIN -->', '<!-- SENSITIVITY:END -->'
s = s[:s.index(a) + len(a)] + '\n' + text + '\n' + s[s.index(b):]
open(dp, 'w').write(s)
print('section 8 regenerated: %d mutants, %d seeded' % (tot, len(glob.glob(os.path.join(VERIF, 'seeded', '*', 'meta.json')))))
