"""Hand-written mutants used for the sensitivity tests of DESIGN.md section 3.8.
Each entry: (name, [(file, old, new), ...]); 'old' must occur exactly once in the file.
Every mutant compiles; whether it passes `make check` is noted in DESIGN.md where it matters."""

MUTANTS = {
    'C09': [
        ('iter_remove_no_tail_fix', [('librfn/list.c', "	if (iter->list->tail == curr)\n		iter->list->tail = prev;\n", "")]),
        ('iter_insert_no_tail_fix', [('librfn/list.c', "	if (!curr)\n		iter->list->tail = node;\n", "")]),
        ('push_no_tail_on_empty', [('librfn/list.c', "	} else {\n		list->tail = node;\n	}\n	list->head = node;", "	}\n	list->head = node;")]),
        ('insert_sorted_gt', [('librfn/list.c', "	     nodecmp(node, curr) >= 0;", "	     nodecmp(node, curr) > 0;")]),
        ('insert_sorted_fast_gt', [('librfn/list.c', "	if (nodecmp(node, list->tail) >= 0) {", "	if (nodecmp(node, list->tail) > 0) {")]),
        ('extract_keeps_next', [('librfn/list.c', "	list->head = node->next;\n	node->next = NULL;\n", "	list->head = node->next;\n")]),
        ('iter_next_no_advance_at_end', [('librfn/list.c', "	if (curr) {\n		iter->prevnext = &curr->next;\n		return curr->next;", "	if (curr && curr->next) {\n		iter->prevnext = &curr->next;\n		return curr->next;")]),
    ],
}
