"""Hand-written mutants used for the sensitivity tests of DESIGN.md section 3.8.
Each entry: (name, [(file, old, new), ...]); 'old' must occur exactly once in the file.
Every mutant compiles; whether it passes `make check` is noted in DESIGN.md where it matters."""

MUTANTS = {
    'C09': [
        ('iter_remove_no_tail_fix', [('librfn/list.c', "	if (iter->list->tail == curr)\n		iter->list->tail = prev;\n", "")]),
        ('iter_insert_no_tail_fix', [('librfn/list.c', "	if (!curr)\n		iter->list->tail = node;\n", "")]),
        ('push_no_tail_on_empty', [('librfn/list.c', "	} else {\n		list->tail = node;\n	}\n	list->head = node;", "	}\n	list->head = node;")]),
        ('insert_sorted_gt', [('librfn/list.c', "	     nodecmp(node, curr) >= 0;", "	     nodecmp(node, curr) > 0;")]),
        ('insert_sorted_fast_gt', [('librfn/list.c', "	if (nodecmp(node, list->tail) >= 0) {", "	if (nodecmp(node, list->tail) > 0) {")]),
        ('extract_keeps_next', [('librfn/list.c', "	list->head = node->next;\n	node->next = NULL;\n", "	list->head = node->next;\n")]),
        ('iter_next_no_advance_at_end', [('librfn/list.c', "	if (curr) {\n		iter->prevnext = &curr->next;\n		return curr->next;", "	if (curr && curr->next) {\n		iter->prevnext = &curr->next;\n		return curr->next;")]),
    ],
    'C16': [
        ('bitcnt_mask_first', [('librfn/bitops.c', "	n = (x >> 1) & 0x77777777;\n	x = x - n;\n	n = (n >> 1) & 0x77777777;", "	n = (x >> 1) & 0x77777776;\n	x = x - n;\n	n = (n >> 1) & 0x77777777;")]),
        ('clz_drop_smear16', [('librfn/bitops.c', "	x = x | (x >>16);\n", "")]),
        ('lssb8_mask', [('include/librfn/constexpr.h', "#define const_lssb8(c)  (0xf & c ?", "#define const_lssb8(c)  (0x7 & c ?")]),
        ('ctz_off', [('librfn/bitops.c', "	return bitcnt(~x & (x - 1));", "	return x ? bitcnt((x - 1) & ~x) : 31;")]),
        ('pop32_shift', [('include/librfn/constexpr.h', "const_pop16(c >> 16))", "const_pop16(c >> 17))")]),
        ('lssb64_mask', [('include/librfn/constexpr.h', "#define const_lssb64(c) (0xffffffffull & c ?", "#define const_lssb64(c) (0x7fffffffull & c ?")]),
    ],
    'C17': [
        ('drop_fold', [('librfn/rand.c', "	lo += hi >> 15;\n", "")]),
        ('mask_ffff', [('librfn/rand.c', "(hi & 0x7fff) << 16", "(hi & 0xffff) << 16")]),
        ('no_cond_sub', [('librfn/rand.c', "	if (lo > 0x7fffffff)\n		lo -= 0x7fffffff;\n", "")]),
        ('one_state', [('librfn/rand.c', "	return (*seedp = lo);", "	if (lo == 1043618065) lo ^= 2;\n	return (*seedp = lo);")]),
    ],
    'C12': [
        ('pack_lt', [('librfn/pack.c', "	pack->p += sz; \\\n	if (pack->p <= pack->endp)", "	pack->p += sz; \\\n	if (pack->p < pack->endp)")]),
        ('u16le_swapped', [('librfn/pack.c', "void rf_pack_u16le(rf_pack_t *pack, uint16_t u16)\n{\n	PACK(pack, p, 2) {\n		p[0] = u16 & 0xff;\n		p[1] = (u16 >> 8) & 0xff;", "void rf_pack_u16le(rf_pack_t *pack, uint16_t u16)\n{\n	PACK(pack, p, 2) {\n		p[1] = u16 & 0xff;\n		p[0] = (u16 >> 8) & 0xff;")]),
        ('unpack_no_bound', [('librfn/pack.c', "	if (pack->p > pack->endp) \\\n		return 0; \\\n	else", "	if (0) \\\n		return 0; \\\n	else")]),
        ('unpack_bytes_no_zero_fill', [('librfn/pack.c', "	} else {\n		if (p)\n			memset(p, 0, sz);\n	}", "	}")]),
        ('s16le_high_no_shift', [('librfn/pack.c', "		p[0] = s16 & 0xff;\n		p[1] = (s16 >> 8) & 0xff;", "		p[0] = s16 & 0xff;\n		p[1] = s16 & 0xff;")]),
        ('unpack_gt_eq', [('librfn/pack.c', "	if (pack->p > pack->endp) \\", "	if (pack->p >= pack->endp) \\")]),
        ('remaining_clamped', [('librfn/pack.c', "	return pack->endp - pack->p;", "	return pack->endp > pack->p ? pack->endp - pack->p : 0;")]),
        ('u32le_unpack_byte3', [('librfn/pack.c', "p[2] << 16 | p[3] << 24;", "p[2] << 16 | (p[3] & 0x7f) << 24;")]),
    ],
    'C10': [
        ('claim_wrap_gt', [('librfn/messageq.c', "newsendp = (sendp >= (mq->queue_len-1) ? 0 : sendp+1);", "newsendp = (sendp > (mq->queue_len-1) ? 0 : sendp+1);")]),
        ('recv_wrap_gt', [('librfn/messageq.c', "(receivep >= (unsigned int)(mq->queue_len - 1) ? 0 : receivep + 1);", "(receivep > (unsigned int)(mq->queue_len - 1) ? 0 : receivep + 1);")]),
        ('claim_addr_newsendp', [('librfn/messageq.c', "	return mq->basep + (sendp * mq->msg_len);", "	return mq->basep + (newsendp * mq->msg_len);")]),
        ('init_roundup', [('librfn/messageq.c', "	mq->queue_len = base_len / msg_len;\n	atomic_store(&mq->num_free, base_len / msg_len);", "	mq->queue_len = (base_len + msg_len - 1) / msg_len;\n	atomic_store(&mq->num_free, (base_len + msg_len - 1) / msg_len);")]),
        ('static_init_swapped', [('include/librfn/messageq.h', "		ATOMIC_VAR_INIT(((base_len) / (msg_len))), \\\n		ATOMIC_VAR_INIT(0), \\", "		ATOMIC_VAR_INIT(0), \\\n		ATOMIC_VAR_INIT(((base_len) / (msg_len))), \\")]),
        ('empty_uses_sendp', [('include/librfn/messageq.h', "(atomic_load(&mq->full_flags) & (1 << mq->receivep));", "(atomic_load(&mq->full_flags) & (1 << atomic_load(&mq->sendp)));")]),
        ('recv_no_flag_check_32', [('librfn/messageq.c', "	if (0 == (full_flags & (1 << receivep)))", "	if (0 == (full_flags & (1 << (receivep & 15))))")]),
        ('send_u8_offset', [('librfn/messageq.c', "	unsigned int offset = (((char *) msg) - mq->basep);", "	unsigned short offset = (((char *) msg) - mq->basep);")]),
    ],
    'C19': [
        ('table_entry_moved', [('librfn/rotenc.c', "	case FROM(1, 0) | TO(0, 0):\n		r->internal_count++;", "		r->internal_count++;"), ('librfn/rotenc.c', "	case FROM(0, 1) | TO(0, 0):\n		r->internal_count--;", "	case FROM(0, 1) | TO(0, 0):\n	case FROM(1, 0) | TO(0, 0):\n		r->internal_count--;")]),
        ('latch_on_state3', [('librfn/rotenc.c', "	if (!state)\n", "	if (state == 3)\n")]),
        ('f9_reintroduced', [('librfn/rotenc.c', "	return r->count;", "	return ((r->internal_count >> 2) & 0x3f00) + (r->count & 0xff);")]),
        ('count_shift3', [('librfn/rotenc.c', "		r->count = r->internal_count >> 2;", "		r->count = (r->internal_count + 1) >> 2;")]),
        ('count14_mask', [('librfn/rotenc.c', "	return r->count;", "	return r->count & 0x1fff;")]),
        ('invalid_jump_counts', [('librfn/rotenc.c', "	case FROM(0, 0) | TO(0, 1):", "	case FROM(0, 1) | TO(1, 0):\n	case FROM(0, 0) | TO(0, 1):")]),
    ],
    'C20': [
        ('fold_255', [('librfn/mlog.c', "		log.head -= lengthof(log.line);", "		log.head -= lengthof(log.line) - 1;")]),
        ('getline_gt', [('librfn/mlog.c', "	if (n >= log.head || n >= lengthof(log.line))", "	if (n > log.head || n >= lengthof(log.line))")]),
        ('nice_le', [('librfn/mlog.c', "	if (log.head < lengthof(log.line))\n		vmlog(fmt, ap);", "	if (log.head <= lengthof(log.line))\n		vmlog(fmt, ap);")]),
        ('slot_from_incremented_head', [('librfn/mlog.c', "	unsigned int head = log.head % lengthof(log.line);\n	", "	unsigned int head = (log.head + 1) % lengthof(log.line);\n	")]),
        ('fold_threshold_wrong', [('librfn/mlog.c', "	if (log.head >= 0x7fffffff)\n		log.head -= lengthof(log.line);", "	if (log.head >= 0x7fffffff)\n		log.head = lengthof(log.line);")]),
        ('wrap_adjust_gt', [('librfn/mlog.c', "	if (log.head >= lengthof(log.line))\n		n += log.head;", "	if (log.head > lengthof(log.line))\n		n += log.head;")]),
        ('third_arg_lost', [('librfn/mlog.c', "	log.line[head].arg[2] = va_arg(ap, uintptr_t);", "	log.line[head].arg[2] = 0;")]),
    ],
}
