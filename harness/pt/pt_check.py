#!/usr/bin/env python3
"""pt_check.py - C08: programs built from the PT_* macros against a reference interpreter.

  pt_check.py run --seed S --worker w --workers W --out PREFIX --repo REPO --build DIR [--param cases=N]
  pt_check.py replay FILE [--repo REPO]

Hypothesis generates an AST (main thread + up to 3 child threads forming a DAG); the emitter prints it as C
using the real include/librfn/protothreads.h, gcc -O0 compiles it, the binary prints one line per
invocation (events, return code); a reference interpreter over the same AST (each thread a Python
generator) must produce the same trace.  Hypothesis shrinks the AST; the minimal one is the replay file.
"""
import sys, os, json, subprocess, hashlib, argparse, tempfile, shutil

YIELDED, WAITING, EXITED, FAILED = 0, 1, 2, 3
RCN = ['yielded', 'waiting', 'exited', 'failed']
EVENT_CAP = 4000
MAX_INV = 400

# ----------------------------------------------------------------------------- reference interpreter
class Stop(Exception):
    def __init__(self, code):
        self.code = code

class CapHit(Exception):
    pass

class StopShrinking(BaseException):
    pass

class Interp:
    def __init__(self, prog):
        self.prog = prog
        self.v = [[0] * 6 for _ in prog['threads']]
        self.events = []
        self.nev = 0
        self.stats = dict(block_in_loop_in_cond=False, spawn_counts={}, child_failed=False, blocks=0, relayed=0)

    def ev(self, n):
        self.nev += 1
        if self.nev > EVENT_CAP:
            raise CapHit()
        self.events.append(n)

    def cond(self, ti, c):
        v = self.v[ti][c['var']]
        if c['op'] == 'lt':
            return v < c['k']
        if c['op'] == 'ge':
            return v >= c['k']
        if c['op'] == 'even':
            return v % 2 == 0
        if c['op'] == 'odd':
            return v % 2 == 1
        raise ValueError(c)

    def thread(self, ti):
        """generator: yields YIELDED/WAITING at blocking points; returns EXITED/FAILED"""
        try:
            yield from self.block(ti, self.prog['threads'][ti]['body'], 0, 0)
        except Stop as s:
            return s.code
        return EXITED

    def blocked(self, loops, conds):
        self.stats['blocks'] += 1
        if loops > 0 and conds > 0:
            self.stats['block_in_loop_in_cond'] = True

    def spawn(self, ti, st, relay):
        cj = st['child']
        self.stats['spawn_counts'][cj] = self.stats['spawn_counts'].get(cj, 0) + 1
        child = self.thread(cj)   # PT_INIT: the child starts from its beginning each time
        while True:
            try:
                r = next(child)
            except StopIteration as e:
                res = e.value
                break
            if relay:
                self.stats['relayed'] += 1
                yield r            # the child's yield / wait is relayed upward unchanged
            # PT_CALL: spin until the child is done
        if res == FAILED:
            self.stats['child_failed'] = True
        return res

    def block(self, ti, stmts, loops, conds):
        v = self.v[ti]
        for st in stmts:
            k = st['k']
            if k == 'emit':
                self.ev(st['n'])
            elif k == 'set':
                v[st['var']] = st['val']
            elif k == 'inc':
                v[st['var']] += 1
            elif k == 'if':
                if self.cond(ti, st['cond']):
                    yield from self.block(ti, st['then'], loops, conds + 1)
                else:
                    yield from self.block(ti, st['else'], loops, conds + 1)
            elif k == 'for':
                v[st['var']] = 0
                while v[st['var']] < st['n']:
                    yield from self.block(ti, st['body'], loops + 1, conds)
                    v[st['var']] += 1
            elif k == 'while':
                v[st['var']] = 0
                while v[st['var']] < st['n']:
                    yield from self.block(ti, st['body'], loops + 1, conds)
                    v[st['var']] += 1
            elif k == 'yield':
                self.blocked(loops, conds)
                yield YIELDED
            elif k == 'wait':
                self.blocked(loops, conds)
                yield WAITING
            elif k == 'wait_until':
                if st.get('ty', 'int') != 'int':
                    self.stats['typed_cond'] = True
                v[st['var']] = 0
                while True:
                    self.ev(st['n'])            # the condition is evaluated on every resumption
                    old = v[st['var']]
                    v[st['var']] += 1
                    if old >= st['c']:
                        break
                    self.blocked(loops, conds)
                    yield WAITING
            elif k == 'exit':
                raise Stop(EXITED)
            elif k == 'fail':
                raise Stop(FAILED)
            elif k == 'exit_on':
                if st['cond'].get('ty', 'int') != 'int':
                    self.stats['typed_cond'] = True
                if self.cond(ti, st['cond']):
                    raise Stop(EXITED)
            elif k == 'fail_on':
                if st['cond'].get('ty', 'int') != 'int':
                    self.stats['typed_cond'] = True
                if self.cond(ti, st['cond']):
                    raise Stop(FAILED)
            elif k == 'spawn':
                res = yield from self.spawn(ti, st, True)
                self.ev(st['a'] if res != FAILED else st['b'])
            elif k == 'spawn_check':
                res = yield from self.spawn(ti, st, True)
                if res == FAILED:
                    raise Stop(FAILED)
            elif k == 'call':
                yield from self.spawn(ti, st, False)
            else:
                raise ValueError(k)

    def run(self):
        """trace: list of (events, rc) per invocation of the main thread; rounds separated by PT_INIT"""
        trace = []
        try:
            for rnd in range(self.prog['rounds']):
                g = self.thread(0)
                inv = 0
                while True:
                    self.events = []
                    try:
                        rc = next(g)
                    except StopIteration as e:
                        rc = e.value
                    trace.append((list(self.events), rc))
                    inv += 1
                    if rc >= EXITED:
                        break
                    if inv >= MAX_INV:
                        trace.append(('MAXINV',))
                        return trace
        except CapHit:
            trace.append((list(self.events), 'CAP'))
        return trace

# ----------------------------------------------------------------------------- emitter
def c_cond(ti, c, typed=True):
    v = 'v%d[%d]' % (ti, c['var'])
    e = {'lt': '%s < %d' % (v, c.get('k', 0)), 'ge': '%s >= %d' % (v, c.get('k', 0)), 'even': '%s %% 2 == 0' % v,
         'odd': '%s %% 2 == 1' % v}[c['op']]
    # a controlling expression need not be an int: the same truth value as a 64-bit flag word whose low half is
    # zero, as a double below 1, as a pointer (used for the PT_* macro arguments only, not for plain if())
    ty = c.get('ty', 'int') if typed else 'int'
    if ty == 'u64':
        return '((%s) ? 0x100000000ULL : 0ULL)' % e
    if ty == 'dbl':
        return '((%s) ? 0.25 : 0.0)' % e
    if ty == 'ptr':
        return '((%s) ? (void *)&v%d[0] : (void *)0)' % (e, ti)
    return e

def unbraceable(stmts):
    """exactly one statement that the emitter prints as a single C statement (no nested if: dangling else)"""
    return len(stmts) == 1 and stmts[0]['k'] in ('emit', 'set', 'inc', 'yield', 'wait', 'exit', 'fail', 'exit_on', 'fail_on', 'spawn', 'spawn_check', 'call')


def emit_block(ti, stmts, ind, out, sites):
    p = '\t' * ind
    for st in stmts:
        k = st['k']
        if k == 'emit':
            out.append('%sev(%d);' % (p, st['n']))
        elif k == 'set':
            out.append('%sv%d[%d] = %d;' % (p, ti, st['var'], st['val']))
        elif k == 'inc':
            out.append('%sv%d[%d]++;' % (p, ti, st['var']))
        elif k == 'if':
            # bodies consisting of one simple statement may be written without braces (as people do):
            # every PT_* macro has to behave as a single statement there
            tb = st.get('nobrace') and unbraceable(st['then'])
            eb = st.get('nobrace') and unbraceable(st['else'])
            out.append('%sif (%s)%s' % (p, c_cond(ti, st['cond'], typed=False), '' if tb else ' {'))
            emit_block(ti, st['then'], ind + 1, out, sites)
            if st.get('noelse') and not st['else']:  # if without else
                if not tb:
                    out.append('%s}' % p)
            else:
                out.append('%s%selse%s' % (p, '' if tb else '} ', '' if eb else ' {'))
                emit_block(ti, st['else'], ind + 1, out, sites)
                if not eb:
                    out.append('%s}' % p)
        elif k == 'for':
            nb = st.get('nobrace') and unbraceable(st['body'])
            out.append('%sfor (v%d[%d] = 0; v%d[%d] < %d; v%d[%d]++)%s' % (p, ti, st['var'], ti, st['var'], st['n'], ti, st['var'], '' if nb else ' {'))
            emit_block(ti, st['body'], ind + 1, out, sites)
            if not nb:
                out.append('%s}' % p)
        elif k == 'while':
            out.append('%sv%d[%d] = 0;' % (p, ti, st['var']))
            out.append('%swhile (v%d[%d] < %d) {' % (p, ti, st['var'], st['n']))
            emit_block(ti, st['body'], ind + 1, out, sites)
            out.append('%s\tv%d[%d]++;' % (p, ti, st['var']))
            out.append('%s}' % p)
        elif k == 'yield':
            out.append('%sPT_YIELD();' % p)
        elif k == 'wait':
            out.append('%sPT_WAIT();' % p)
        elif k == 'wait_until':
            out.append('%sv%d[%d] = 0;' % (p, ti, st['var']))
            inner = 'v%d[%d]++ >= %d' % (ti, st['var'], st['c'])
            ty = st.get('ty', 'int')
            if ty == 'u64':
                inner = '((%s) ? 0x100000000ULL : 0ULL)' % inner
            elif ty == 'dbl':
                inner = '((%s) ? 0.25 : 0.0)' % inner
            elif ty == 'ptr':
                inner = '((%s) ? (void *)&v%d[0] : (void *)0)' % (inner, ti)
            out.append('%sPT_WAIT_UNTIL((ev(%d), %s));' % (p, st['n'], inner))
        elif k == 'exit':
            out.append('%sPT_EXIT();' % p)
        elif k == 'fail':
            out.append('%sPT_FAIL();' % p)
        elif k == 'exit_on':
            out.append('%sPT_EXIT_ON(%s);' % (p, c_cond(ti, st['cond'])))
        elif k == 'fail_on':
            out.append('%sPT_FAIL_ON(%s);' % (p, c_cond(ti, st['cond'])))
        elif k in ('spawn', 'spawn_check', 'call'):
            site = len(sites)
            sites.append(site)
            cp = 'cpt%d_%d' % (ti, site)
            if k == 'spawn':  # two statements: always a block of its own
                out.append('%s{ /* spawn site %d */' % (p, site))
                out.append('%s\tPT_SPAWN(&%s, thread%d(&%s));' % (p, cp, st['child'], cp))
                out.append('%s\tev(PT_CHILD_OK() ? %d : %d);' % (p, st['a'], st['b']))
                out.append('%s}' % p)
            elif k == 'spawn_check':  # one macro, one statement: no braces of ours around it
                out.append('%sPT_SPAWN_AND_CHECK(&%s, thread%d(&%s)); /* spawn site %d */' % (p, cp, st['child'], cp, site))
            else:
                out.append('%sPT_CALL(&%s, thread%d(&%s)); /* spawn site %d */' % (p, cp, st['child'], cp, site))

def emit_c(prog):
    out = ['/* generated by pt_check.py */', '#include <assert.h>', '#include <stdio.h>', '#include <stdlib.h>',
           '#include "librfn/protothreads.h"', '', 'static int nev;',
           'static int ev(int n)', '{', '\tif (++nev > %d) { printf(" CAP\\n"); exit(3); }' % EVENT_CAP, '\tprintf(" %d", n);', '\treturn 0;', '}', '']
    nt = len(prog['threads'])
    for ti in range(nt):
        out.append('static int v%d[6];' % ti)
        out.append('static pt_state_t thread%d(pt_t *pt);' % ti)
    bodies = []
    for ti in reversed(range(nt)):
        body, sites = [], []
        emit_block(ti, prog['threads'][ti]['body'], 1, body, sites)
        fn = ['static pt_state_t thread%d(pt_t *pt)' % ti, '{']
        for s in sites:
            fn.append('\tstatic pt_t cpt%d_%d;' % (ti, s))
        fn.append('\tPT_BEGIN(pt);')
        fn += body
        fn.append('\tPT_END();')
        fn.append('}')
        bodies.append('\n'.join(fn))
    out += bodies
    out += ['', 'int main(void)', '{', '\tpt_t pt;', '\tfor (int rnd = 0; rnd < %d; rnd++) {' % prog['rounds'], '\t\tPT_INIT(&pt);',
            '\t\tfor (int inv = 0; ; inv++) {', '\t\t\tprintf("I:");', '\t\t\tint r = thread0(&pt);', '\t\t\tprintf(" -> %d\\n", r);',
            '\t\t\tif (r >= PT_EXITED) break;', '\t\t\tif (inv + 1 >= %d) { printf("MAXINV\\n"); return 0; }' % MAX_INV, '\t\t}', '\t}', '\treturn 0;', '}', '']
    return '\n'.join(out)

def fmt_trace(trace):
    lines = []
    for t in trace:
        if t == ('MAXINV',):
            lines.append('MAXINV')
        elif t[1] == 'CAP':
            lines.append('I:' + ''.join(' %d' % e for e in t[0]) + ' CAP')
        else:
            lines.append('I:' + ''.join(' %d' % e for e in t[0]) + ' -> %d' % t[1])
    return lines

def _limit_child():
    # a generated program that spins (a broken PT_CALL, say) must die on its own even if this worker is killed
    import resource
    resource.setrlimit(resource.RLIMIT_CPU, (8, 8))
    resource.setrlimit(resource.RLIMIT_FSIZE, (1 << 24, 1 << 24))


# ----------------------------------------------------------------------------- one program
class Runner:
    def __init__(self, repo, build):
        self.repo = repo
        self.dir = build
        os.makedirs(build, exist_ok=True)
        self.n = 0

    def check(self, prog, keep=False):
        """returns (ok, message, stats, csrc)"""
        it = Interp(prog)
        exp = fmt_trace(it.run())
        src = emit_c(prog)
        base = os.path.join(self.dir, 'p%d' % os.getpid())
        with open(base + '.c', 'w') as f:
            f.write(src)
        r = subprocess.run(['gcc', '-O0', '-g', '-Wall', '-Wno-unused-variable', '-Wno-unused-but-set-variable', '-I', os.path.join(self.repo, 'include'), base + '.c', '-o', base],
                           stdout=subprocess.PIPE, stderr=subprocess.STDOUT, text=True)
        if r.returncode != 0:
            return False, 'generated program does not compile with the macros as they are: ' + r.stdout[-600:], it.stats, src
        got = None
        for attempt in range(2):  # a wall-clock timeout is only believed if it repeats (the reference finished in <= 4000 events)
            try:
                rr = subprocess.run([base], stdout=subprocess.PIPE, stderr=subprocess.STDOUT, text=True, timeout=5, preexec_fn=_limit_child)
                got = rr.stdout.splitlines()
                if rr.returncode not in (0, 3):
                    got.append('(exit status %d)' % rr.returncode)
                break
            except subprocess.TimeoutExpired:
                got = ['(timeout)']
        self.n += 1
        if got == exp:
            return True, '', it.stats, src
        i = 0
        while i < len(got) and i < len(exp) and got[i] == exp[i]:
            i += 1
        g = got[i] if i < len(got) else '(nothing: the program stopped)'
        e = exp[i] if i < len(exp) else '(nothing: the reference says the thread had already finished)'
        return False, 'invocation %d of the main protothread: the compiled program printed "%s", sequential semantics give "%s" (events, then -> 0 yielded / 1 waiting / 2 exited / 3 failed)' % (i, g, e), it.stats, src

# ----------------------------------------------------------------------------- generator (Hypothesis)
def strategies():
    from hypothesis import strategies as st

    TYPES = ['int'] * 5 + ['u64', 'dbl', 'ptr']

    def cond():
        return st.builds(lambda op, var, k, ty: dict(op=op, var=var, k=k, ty=ty), st.sampled_from(['lt', 'ge', 'even', 'odd']), st.integers(0, 5), st.integers(0, 3),
                         st.sampled_from(TYPES))

    import functools

    @functools.lru_cache(maxsize=None)
    def stmts(ti, nthreads, depth, loopvars):
        """loopvars: tuple of variable indices already used by enclosing loops (loop variables are private to a loop)"""
        children = list(range(ti + 1, nthreads))
        free = [i for i in range(6) if i not in loopvars]
        leaf = [st.builds(lambda n: dict(k='emit', n=n), st.integers(1, 99)),
                st.just(dict(k='yield')), st.just(dict(k='wait')), st.just(dict(k='yield')),
                st.builds(lambda n: dict(k='emit', n=n), st.integers(1, 99))]
        if free:
            leaf += [st.builds(lambda var, val: dict(k='set', var=var, val=val), st.sampled_from(free), st.integers(0, 3)),
                     st.builds(lambda var: dict(k='inc', var=var), st.sampled_from(free)),
                     st.builds(lambda n, var, c, ty: dict(k='wait_until', n=n, var=var, c=c, ty=ty), st.integers(100, 199), st.sampled_from(free), st.integers(0, 3),
                               st.sampled_from(TYPES))]
        leaf += [st.builds(lambda c: dict(k='exit_on', cond=c), cond()), st.builds(lambda c: dict(k='fail_on', cond=c), cond())]
        if children:
            leaf += [st.builds(lambda ch, a, b: dict(k='spawn', child=ch, a=a, b=b), st.sampled_from(children), st.integers(200, 249), st.integers(250, 299)),
                     st.builds(lambda ch: dict(k='spawn_check', child=ch), st.sampled_from(children)),
                     st.builds(lambda ch, a, b: dict(k='spawn', child=ch, a=a, b=b), st.sampled_from(children), st.integers(200, 249), st.integers(250, 299)),
                     st.builds(lambda ch: dict(k='call', child=ch), st.sampled_from(children))]
        rare = [st.just(dict(k='exit')), st.just(dict(k='fail'))]
        if ti > 0:  # children fail a little more often than the root
            rare.append(st.builds(lambda c: dict(k='fail_on', cond=c), cond()))
        opts = leaf + leaf + rare
        if children:
            # PT_SPAWN_AND_CHECK / PT_SPAWN as the unbraced body of an else-less if or of a loop: each macro has to be one statement
            one = st.builds(lambda kk, ch, a, b: dict(k=kk, child=ch, a=a, b=b) if kk == 'spawn' else dict(k=kk, child=ch),
                            st.sampled_from(['spawn_check', 'spawn_check', 'call', 'spawn']), st.sampled_from(children), st.integers(200, 249), st.integers(250, 299))
            opts.append(st.builds(lambda c, body: dict(k='if', cond=c, then=[body], nobrace=True, noelse=True, **{'else': []}), cond(), one))
            if free and depth < 3:
                lv0 = free[0]
                opts.append(st.builds(lambda n, body: dict(k='for', var=lv0, n=n, body=[body], nobrace=True), st.integers(2, 3), one))
        if depth < 3:
            sub = lambda lv: st.deferred(lambda: st.lists(stmts(ti, nthreads, depth + 1, lv), min_size=0, max_size=3))
            sub1 = lambda lv: st.deferred(lambda: st.lists(stmts(ti, nthreads, depth + 1, lv), min_size=1, max_size=1))
            opts.append(st.builds(lambda c, a, b, nb, ne: dict(k='if', cond=c, then=a, nobrace=nb, noelse=ne, **{'else': b}), cond(), sub(loopvars), sub(loopvars), st.booleans(), st.booleans()))
            opts.append(st.builds(lambda c, a, b, nb: dict(k='if', cond=c, then=a, nobrace=nb, **{'else': b}), cond(), sub1(loopvars), sub1(loopvars), st.booleans()))
            if free:
                lv = free[0]
                opts.append(st.builds(lambda n, body: dict(k='for', var=lv, n=n, body=body), st.integers(0, 3), sub(loopvars + (lv,))))
                opts.append(st.builds(lambda n, body: dict(k='while', var=lv, n=n, body=body), st.integers(0, 3), sub(loopvars + (lv,))))
                opts.append(st.builds(lambda n, body, nb: dict(k='for', var=lv, n=n, body=body, nobrace=nb), st.integers(1, 3), sub1(loopvars + (lv,)), st.booleans()))
        return st.one_of(*opts)

    def thread(ti, nthreads):
        body = st.lists(stmts(ti, nthreads, 0, ()), min_size=1, max_size=6)
        # every child starts with an Emit, so that a wrongly resumed child is visible
        return st.builds(lambda b: dict(body=([dict(k='emit', n=900 + ti)] if ti else []) + b), body)

    def program(nt):
        return st.builds(lambda ths, rounds: dict(threads=ths, rounds=rounds), st.tuples(*[thread(i, nt) for i in range(nt)]).map(list),
                         st.sampled_from([1, 1, 2]))
    # built once (a flatmap would rebuild and re-validate the whole strategy tree for every example)
    return st.one_of(program(1), program(2), program(3), program(4), program(3), program(4))

def nontrivial(stats):
    return bool(stats['block_in_loop_in_cond'] or any(c > 1 for c in stats['spawn_counts'].values()) or stats['child_failed'])

def cmd_run(a):
    from hypothesis import given, settings, seed, HealthCheck, Phase
    params = dict(p.split('=', 1) for p in a.param)
    cases = int(params.get('cases', 100))
    per = cases // a.workers + (1 if a.worker < cases % a.workers else 0)
    runner = Runner(a.repo, os.path.join(a.build, 'w%d' % a.worker))
    st = dict(evaluations=0, nontrivial=0, hashes=set(), classes={}, samples=[], last_fail=None)

    def one(prog):
        ok, msg, stats, src = runner.check(prog)
        st['evaluations'] += 1
        if nontrivial(stats):
            st['nontrivial'] += 1
            st['hashes'].add(hashlib.sha1(json.dumps(prog, sort_keys=True).encode()).hexdigest()[:16])
            if len(st['samples']) < 2:
                st['samples'].append(dict(pick='nontrivial', case=src[src.index('static pt_state_t thread'):][:1800]))
        for k, v in (('blocking point inside a loop inside a conditional', stats['block_in_loop_in_cond']),
                     ('a child spawned more than once', any(c > 1 for c in stats['spawn_counts'].values())),
                     ('a failing child', stats['child_failed']), ('child yield/wait relayed upward', stats['relayed'] > 0),
                     ('unbraced single-statement body', 'for (' in src and any(l.rstrip().endswith(')') and (l.strip().startswith('if (') or l.strip().startswith('for (')) for l in src.splitlines()) or '\telse\n' in src),
                     ('two rounds (PT_INIT after exit)', prog['rounds'] == 2),
                     ('a PT_* condition that is a 64-bit word, a double or a pointer', stats.get('typed_cond', False))):
            if v:
                st['classes'][k] = st['classes'].get(k, 0) + 1
        if not ok:
            st['last_fail'] = (prog, msg, src)
            if '(timeout)' in msg:
                st['timeouts'] = st.get('timeouts', 0) + 1
                if st['timeouts'] > 6:
                    raise StopShrinking()  # every further shrink step would cost two more time-outs
        assert ok, msg

    test = seed(a.seed)(settings(max_examples=max(per, 1), database=None, deadline=None, report_multiple_bugs=False, derandomize=False,
                                 suppress_health_check=list(HealthCheck), phases=[Phase.generate, Phase.shrink])(given(strategies())(one)))
    failed = False
    counted = dict(st)
    try:
        test()
    except (AssertionError, StopShrinking):
        failed = True
    except Exception as e:  # hypothesis wraps some failures
        if st['last_fail'] is None:
            raise
        failed = True
    stats = dict(harness='pt', mode='script', evaluations=st['evaluations'], nontrivial=st['nontrivial'], distinct_direct=len(st['hashes']),
                 exhaustive=False, classes=st['classes'], samples=st['samples'], failed=failed)
    if failed and st['last_fail']:
        prog, msg, src = st['last_fail']
        stats['failmsg'] = msg
        with open(a.out + '.fail', 'w') as f:
            f.write('# librfn-verif replay\nharness pt\n')
            f.write('ast %s\n' % json.dumps(prog, sort_keys=True))
            f.write('# message: %s\n' % msg)
            for line in src.splitlines():
                f.write('# ' + line + '\n')
    with open(a.out + '.stats.json.tmp', 'w') as f:
        json.dump(stats, f)
    os.rename(a.out + '.stats.json.tmp', a.out + '.stats.json')
    shutil.rmtree(runner.dir, ignore_errors=True)
    return 1 if failed else 0

def cmd_replay(a):
    prog = None
    for line in open(a.file):
        if line.startswith('ast '):
            prog = json.loads(line[4:])
    if prog is None:
        print('no ast line in', a.file)
        return 2
    d = tempfile.mkdtemp(prefix='ptreplay_', dir=os.environ.get('VERIF_BUILD_DIR', os.path.join(os.path.dirname(os.path.abspath(__file__)), '..', '..', 'build')))
    try:
        ok, msg, stats, src = Runner(a.repo, d).check(prog)
    finally:
        shutil.rmtree(d, ignore_errors=True)
    print(src)
    print('REPLAY-PASS' if ok else 'REPLAY-FAIL: ' + msg)
    return 0 if ok else 1

def main():
    ap = argparse.ArgumentParser()
    sub = ap.add_subparsers(dest='cmd')
    r = sub.add_parser('run')
    r.add_argument('--seed', type=int, default=1)
    r.add_argument('--worker', type=int, default=0)
    r.add_argument('--workers', type=int, default=1)
    r.add_argument('--out', required=True)
    r.add_argument('--repo', default=os.environ.get('VERIF_REPO', '/repo'))
    r.add_argument('--build', required=True)
    r.add_argument('--param', action='append', default=[])
    p = sub.add_parser('replay')
    p.add_argument('file')
    p.add_argument('--repo', default=os.environ.get('VERIF_REPO', '/repo'))
    a = ap.parse_args()
    if a.cmd == 'run':
        return cmd_run(a)
    if a.cmd == 'replay':
        return cmd_replay(a)
    ap.print_help()
    return 2

if __name__ == '__main__':
    sys.exit(main())
