// C16 - bit-counting helpers equal their mathematical definitions.
// Oracle: gcc builtins (popcount/clz/ctz) with the x = 0 cases spelled out.
#include <set>

#include "../core/tape.hpp"

extern "C" {
int ab_bitcnt(uint32_t), ab_clz(uint32_t), ab_ctz(uint32_t), ab_ilog2(uint32_t);
long long ab_const_pop(uint64_t), ab_const_lssb(uint64_t);
// generated translation unit: the same macros in constant-expression context
extern const uint64_t ce_in[];
extern const long long ce_pop[], ce_lssb[];
extern const unsigned ce_n;
}

const char *H_NAME = "bitops";

static int ref_pop32(uint32_t x) { return __builtin_popcount(x); }
static int ref_clz32(uint32_t x) { return x ? __builtin_clz(x) : 32; }
static int ref_ctz32(uint32_t x) { return x ? __builtin_ctz(x) : 32; }
static int ref_pop64(uint64_t x) { return __builtin_popcountll(x); }
static int ref_lssb64(uint64_t x) { return x ? __builtin_ctzll(x) : -1; }

static const char *check32(uint32_t x, char *buf, size_t n)
{
	int a;
	if ((a = ab_bitcnt(x)) != ref_pop32(x)) {
		snprintf(buf, n, "bitcnt(0x%08x)=%d, number of one bits is %d", x, a, ref_pop32(x));
		return buf;
	}
	if ((a = ab_clz(x)) != ref_clz32(x)) {
		snprintf(buf, n, "clz(0x%08x)=%d, leading zero bits are %d", x, a, ref_clz32(x));
		return buf;
	}
	if ((a = ab_ctz(x)) != ref_ctz32(x)) {
		snprintf(buf, n, "ctz(0x%08x)=%d, trailing zero bits are %d", x, a, ref_ctz32(x));
		return buf;
	}
	if (x && (a = ab_ilog2(x)) != 31 - ref_clz32(x)) {
		snprintf(buf, n, "ilog2(0x%08x)=%d, highest set bit is %d", x, a, 31 - ref_clz32(x));
		return buf;
	}
	return nullptr;
}

static const char *check64(uint64_t x, char *buf, size_t n)
{
	long long a;
	if ((a = ab_const_pop(x)) != ref_pop64(x)) {
		snprintf(buf, n, "const_pop(0x%016llx)=%lld at run time, number of one bits is %d", (unsigned long long)x, a,
			 ref_pop64(x));
		return buf;
	}
	if ((a = ab_const_lssb(x)) != ref_lssb64(x)) {
		snprintf(buf, n, "const_lssb(0x%016llx)=%lld at run time, lowest set bit is %d", (unsigned long long)x, a,
			 ref_lssb64(x));
		return buf;
	}
	return nullptr;
}

static const char *check_ce(unsigned i, char *buf, size_t n)
{
	uint64_t x = ce_in[i];
	if (ce_pop[i] != ref_pop64(x) || ce_pop[i] != ab_const_pop(x)) {
		snprintf(buf, n, "const_pop(0x%016llx) folded to %lld as a constant expression; run time %lld, definition %d",
			 (unsigned long long)x, ce_pop[i], ab_const_pop(x), ref_pop64(x));
		return buf;
	}
	if (ce_lssb[i] != ref_lssb64(x) || ce_lssb[i] != ab_const_lssb(x)) {
		snprintf(buf, n, "const_lssb(0x%016llx) folded to %lld as a constant expression; run time %lld, definition %d",
			 (unsigned long long)x, ce_lssb[i], ab_const_lssb(x), ref_lssb64(x));
		return buf;
	}
	return nullptr;
}

static uint64_t pattern64(Tape &t)
{
	switch (t.weighted({ 3, 2, 2, 2, 1 })) {
	default:
	case 0:
		return ((uint64_t)t.u32() << 32) | t.u32();
	case 1:
		return 1ull << t.choose(64);
	case 2:
		return (1ull << t.choose(64)) | (1ull << t.choose(64));
	case 3: { // contiguous mask lo..hi
		unsigned lo = t.choose(64), hi = lo + t.choose(64 - lo);
		uint64_t m = (hi - lo == 63) ? ~0ull : (((1ull << (hi - lo + 1)) - 1) << lo);
		return m;
	}
	case 4:
		return t.flip() ? 0 : ~0ull;
	}
}

void h_run(Ctx &c)
{
	Tape &t = c.t;
	char buf[256];
	switch (t.choose(3)) {
	case 0: {
		uint32_t x = t.flip() ? (uint32_t)pattern64(t) : t.u32();
		c.note("32-bit argument 0x%08x through bitcnt/clz/ctz/ilog2", x);
		c.nontrivial = x != 0 && x != 0xffffffffu;
		if (const char *m = check32(x, buf, sizeof buf))
			c.fail("%s", m);
		break;
	}
	case 1: {
		uint64_t x = pattern64(t);
		c.note("64-bit argument 0x%016llx through const_pop/const_lssb evaluated at run time", (unsigned long long)x);
		c.nontrivial = x != 0 && x != ~0ull;
		if (const char *m = check64(x, buf, sizeof buf))
			c.fail("%s", m);
		break;
	}
	case 2: {
		unsigned i = t.choose(ce_n);
		c.note("constant-expression table entry %u: 0x%016llx", i, (unsigned long long)ce_in[i]);
		c.nontrivial = ce_in[i] != 0 && ce_in[i] != ~0ull;
		if (const char *m = check_ce(i, buf, sizeof buf))
			c.fail("%s", m);
		break;
	}
	}
}

// exhaustive: all 2^32 arguments of the four functions (this worker's share), the whole
// constant-expression table, and all 1-bit / 2-bit / contiguous-mask 64-bit patterns at run time.
void h_custom(long worker, long workers, long seed, std::map<std::string, std::string> &params, CustomOut &o)
{
	char buf[256];
	uint64_t lo = (1ull << 32) * worker / workers, hi = (1ull << 32) * (worker + 1) / workers;
	uint32_t dummy[3], *cur = engine_custom_case ? engine_custom_case(3, nullptr) : dummy; // h_run: kind 0, flip = 0 (raw), the value
	cur[0] = cur[1] = 0;
	for (uint64_t x = lo; x < hi; x++) {
		cur[2] = (uint32_t)x; // a function that aborts on this argument leaves a replayable case behind
		if (const char *m = check32((uint32_t)x, buf, sizeof buf)) {
			o.failed = true;
			o.failmsg = m;
			// h_run: kind 0, flip=0 (raw), then the value
			o.fail_tape = { 0, 0, (uint32_t)x };
			break;
		}
	}
	o.evaluations = hi - lo;
	o.nontrivial = o.distinct = (hi - lo) - (lo == 0) - (hi == (1ull << 32));
	o.classes["32-bit arguments (all four functions)"] = hi - lo;
	snprintf(buf, sizeof buf, "all x in [0x%08llx, 0x%08llx] through bitcnt, clz, ctz, ilog2 vs gcc builtins",
		 (unsigned long long)lo, (unsigned long long)hi - 1);
	o.samples.push_back(buf);
	if (worker == 0 && !o.failed) {
		unsigned long n = 0;
		for (unsigned i = 0; i < ce_n && !o.failed; i++, n++)
			if (const char *m = check_ce(i, buf, sizeof buf)) {
				o.failed = true;
				o.failmsg = m;
				o.fail_tape = { 2, i };
			}
		o.classes["constant-expression table entries"] = n;
		unsigned long pats = 0;
		std::set<uint64_t> seen;
		for (unsigned i = 0; i < ce_n; i++)
			seen.insert(ce_in[i]);
		auto one = [&](uint64_t x) {
			pats++;
			seen.insert(x);
			if (!o.failed)
				if (const char *m = check64(x, buf, sizeof buf)) {
					o.failed = true;
					o.failmsg = m;
					// kind 1, weighted->raw (index 0 of weights {3,2,2,2,1} = values 0..2), hi, lo
					o.fail_tape = { 1, 0, (uint32_t)(x >> 32), (uint32_t)x };
				}
		};
		one(0);
		for (int a = 0; a < 64; a++) {
			one(1ull << a);
			for (int b = a + 1; b < 64; b++)
				one((1ull << a) | (1ull << b));
			for (int b = a; b < 64; b++)
				one(b - a == 63 ? ~0ull : (((1ull << (b - a + 1)) - 1) << a));
		}
		o.classes["64-bit patterns at run time (1-bit, 2-bit, contiguous masks)"] = pats;
		o.evaluations += n + pats;
		seen.erase(0);
		seen.erase(~0ull);
		o.nontrivial += seen.size();
		o.distinct += seen.size(); // distinct 64-bit arguments other than 0 and ~0
		o.samples.push_back("ce table: const_pop/const_lssb as static-const initialisers vs run time vs builtins; e.g. 0x" +
				    std::to_string(ce_in[ce_n / 2]));
	}
	o.exhaustive = !o.failed;
}
