// C10 - message queue is a bounded FIFO of fixed buffers for every geometry (sequential histories).
// Oracle: counters claimed/sent/received/released; both initialisers must describe the same queue.
#include "../core/tape.hpp"

extern "C" {
void aq_setup(unsigned depth, unsigned msg_len, unsigned slack);
void aq_setup4(unsigned depth, unsigned msg_len, unsigned slack, unsigned mis);
int aq_lead_ok(int i);
long aq_claim(int i);
void aq_send(int i, long o);
long aq_receive(int i);
void aq_release(int i, long o);
int aq_empty(int i);
uint8_t *aq_storage(int i);
}

const char *H_NAME = "mqseq";

static const unsigned LENS[] = { 1, 2, 3, 4, 5, 7, 8, 12, 16, 24, 33, 255, 256, 1000 };

static uint8_t pay(unsigned long k, unsigned i) { return (uint8_t)(k * 131 + i * 7 + 3); }
// payload bytes written and verified: all of a small message, the first and last 32 bytes of a big one

void h_run(Ctx &c)
{
	Tape &t = c.t;
	unsigned depth, msg_len, slack;
	if (t.enumerating) {
		depth = (unsigned)c.param("depth", 2);
		msg_len = (unsigned)c.param("msg_len", 3);
		slack = (unsigned)c.param("slack", 1);
	} else {
		depth = 1 + t.choose(32);
		switch (t.weighted({ 12, 4, 1 })) {
		default:
		case 0:
			msg_len = LENS[t.choose(sizeof LENS / sizeof *LENS)];
			break;
		case 1:
			msg_len = 1 + t.choose(2000);
			break;
		case 2: { // msg_len is a uint16_t: storage offsets beyond 64 KiB
			static const unsigned BIG[] = { 2048, 2049, 4096, 32768, 65535 };
			msg_len = t.flip() ? BIG[t.choose(5)] : 2001 + t.choose(65535 - 2000);
			c.cls("big-message (offsets beyond 64 KiB possible)");
			break;
		}
		}
		slack = t.flip() ? t.choose(msg_len) : 0;
	}
	unsigned mis = (!t.enumerating && c.feat(2) && t.weighted({ 3, 1 }) == 1) ? 1 + t.choose(3) : 0;
	if (mis)
		c.cls("caller-memory-not-4-byte-aligned");
	aq_setup4(depth, msg_len, slack, mis);
	long maxops = c.param("maxops", 150);
	long nops = t.enumerating ? c.param("ops", 6) : t.range(0, maxops);
	long precycle = c.param("precycle", t.enumerating ? 0 : -1);
	if (precycle < 0 && !c.feat(2))
		precycle = t.choose(2) ? t.choose(2 * depth + 1) : 0;
	if (precycle < 0) {
		// long lives: index arithmetic that is only right for the first 2^8 or 2^16 messages (or only for
		// depths dividing them) shows after that many claims
		switch (t.weighted({ 16, 16, 4, 1 })) {
		case 0:
			precycle = 0;
			break;
		case 1:
			precycle = t.choose(2 * depth + 1);
			break;
		case 2:
			precycle = 200 + t.choose(400);
			c.cls("long-life (>= 256 messages before the generated operations)");
			break;
		case 3:
			precycle = 65400 + t.choose(300);
			c.cls("long-life (>= 65536 messages before the generated operations)");
			break;
		}
	}
	c.note("depth %u msg_len %u slack %u, %ld ops after %ld pre-cycled messages", depth, msg_len, slack, nops, precycle);
	unsigned long claimed = 0, received = 0, released = 0;
	std::vector<bool> sent; // indexed by claim number
	bool wrapped_with_two = false;
	char what[96];
	auto do_claim = [&]() {
		long o0 = aq_claim(0), o1 = aq_claim(1);
		long exp = (claimed - released == depth) ? -1 : (long)((claimed % depth) * msg_len);
		snprintf(what, sizeof what, "claim #%lu", claimed);
		c.note("%s -> offset %ld", what, o0);
		CHECK(c, o0 == exp, "%s returned offset %ld (static-initialised queue), expected %ld", what, o0, exp);
		CHECK(c, o1 == exp, "%s returned offset %ld (messageq_init queue), expected %ld", what, o1, exp);
		if (exp >= 0 && !c.failed) {
			for (int qi = 0; qi < 2; qi++)
				for (unsigned i = 0; i < msg_len; i = (msg_len > 96 && i == 31) ? msg_len - 32 : i + 1)
					aq_storage(qi)[exp + i] = pay(claimed, i);
			if (claimed % depth == depth - 1 && claimed - released >= 1 && depth > 1)
				wrapped_with_two = true;
			claimed++;
			sent.push_back(false);
		}
	};
	auto do_send = [&](unsigned long k) {
		snprintf(what, sizeof what, "send claim #%lu", k);
		c.note("%s", what);
		long o = (long)((k % depth) * msg_len);
		aq_send(0, o);
		aq_send(1, o);
		sent[k] = true;
	};
	auto do_receive = [&]() {
		long o0 = aq_receive(0), o1 = aq_receive(1);
		bool avail = received < claimed && sent[received];
		long exp = avail ? (long)((received % depth) * msg_len) : -1;
		snprintf(what, sizeof what, "receive");
		c.note("%s -> offset %ld", what, o0);
		CHECK(c, o0 == exp, "receive returned offset %ld (static-initialised queue), expected %ld", o0, exp);
		CHECK(c, o1 == exp, "receive returned offset %ld (messageq_init queue), expected %ld", o1, exp);
		if (avail && !c.failed) {
			for (int qi = 0; qi < 2; qi++)
				for (unsigned i = 0; i < msg_len && !c.failed; i = (msg_len > 96 && i == 31) ? msg_len - 32 : i + 1)
					CHECK(c, aq_storage(qi)[exp + i] == pay(received, i),
					      "message #%lu byte %u is 0x%02x on receive, 0x%02x was written before send", received, i,
					      aq_storage(qi)[exp + i], pay(received, i));
			received++;
		}
	};
	auto do_release = [&]() {
		snprintf(what, sizeof what, "release message #%lu", released);
		c.note("%s", what);
		long o = (long)((released % depth) * msg_len);
		aq_release(0, o);
		aq_release(1, o);
		released++;
	};
	auto check_empty = [&]() {
		bool avail = received < claimed && sent[received];
		int e0 = aq_empty(0), e1 = aq_empty(1);
		CHECK(c, e0 == !avail && e1 == !avail, "messageq_empty=%d/%d but receive would%s return a message", e0, e1,
		      avail ? "" : " not");
	};
	// rolling pre-cycle: k messages stay outstanding throughout (k = depth: the queue is full whenever a counter
	// wraps, and every round also asks a full queue for one more buffer)
	unsigned hold = 0;
	if (precycle > 0 && c.feat(2) && !t.enumerating && t.flip()) {
		hold = t.flip() ? depth : (unsigned)t.choose(depth + 1);
		if (hold == depth)
			c.cls("pre-cycled-with-the-queue-full");
	}
	for (unsigned i = 0; i < hold && !c.failed; i++) {
		do_claim();
		do_send(claimed - 1);
	}
	for (long i = 0; i < precycle && !c.failed; i++) {
		if (hold == depth)
			do_claim(); // full: must be refused
		if (hold) {
			do_receive();
			do_release();
		}
		do_claim();
		do_send(claimed - 1);
		if (!hold) {
			do_receive();
			do_release();
		}
	}
	for (long step = 0; step < nops && !c.failed; step++) {
		if (!t.enumerating || true)
			check_empty();
		std::vector<unsigned long> unsent;
		for (unsigned long k = received; k < claimed; k++)
			if (!sent[k])
				unsent.push_back(k);
		switch (t.weighted({ 4, 3, 3, 3 })) {
		case 0:
			do_claim();
			break;
		case 1:
			if (unsent.empty()) {
				c.cls("skipped-op");
				break;
			}
			if (unsent.size() > 1)
				c.cls("send-out-of-claim-order-possible");
			do_send(unsent[t.choose(unsent.size())]);
			break;
		case 2:
			do_receive();
			break;
		case 3:
			if (released >= received) {
				c.cls("skipped-op");
				break;
			}
			do_release();
			break;
		}
	}
	if (!c.failed)
		check_empty();
	// slack bytes never touched
	for (int qi = 0; qi < 2 && !c.failed; qi++)
		for (unsigned i = 0; i < slack && !c.failed; i++)
			CHECK(c, aq_storage(qi)[(size_t)depth * msg_len + i] == 0xEE, "trailing slack byte %u was modified", i);
	for (int qi = 0; qi < 2 && !c.failed; qi++)
		CHECK(c, aq_lead_ok(qi), "bytes in front of the caller's memory were modified (queue %d)", qi);
	if (wrapped_with_two)
		c.cls("wrapped-with-two-outstanding");
	if (depth == 1)
		c.cls("depth-1");
	if (depth == 32)
		c.cls("depth-32");
	if (slack)
		c.cls("slack");
	c.nontrivial = (nops > 0 || precycle > 0) && (wrapped_with_two || depth == 1 || depth == 32 || slack > 0);
}
