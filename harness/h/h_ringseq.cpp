// C05, sequential half: the ring buffer against a FIFO model for every length, start index and byte
// value, in an exactly-sized heap block under ASan.
#include <deque>

#include "../core/tape.hpp"

extern "C" {
void ar_setup(unsigned buf_len);
int ar_put(int d);
void ar_putchar(int ch);
int ar_get(void);
int ar_empty(void);
}

const char *H_NAME = "ringseq";

void h_run(Ctx &c)
{
	Tape &t = c.t;
	unsigned len;
	bool big = false;
	if (t.enumerating)
		len = (unsigned)c.param("len", 3);
	else
		switch (t.weighted({ 12, 4, 1 })) {
		default:
		case 0: len = 2 + t.choose(7); break;
		case 1: len = 2 + t.choose(63); break;
		case 2: { // the property says every buffer length >= 2: lengths around and beyond 2^16
			static const unsigned BIG[] = { 255, 256, 257, 65535, 65536, 65537, 70000 };
			len = BIG[t.choose(7)];
			big = true;
			c.cls("large-buffer-length");
			break;
		}
		}
	ar_setup(len);
	std::deque<int> q;
	// pre-cycle through the API so that the indices start anywhere
	unsigned pre = t.enumerating ? (unsigned)c.param("pre", 0) : big ? (t.flip() ? len - 1 - t.choose(4) : t.choose(len)) : t.choose(2 * len + 1);
	for (unsigned i = 0; i < pre; i++) {
		ar_put(0x55);
		ar_get();
	}
	long nops = t.enumerating ? c.param("ops", 6) : t.range(0, c.param("maxops", 80));
	c.note("buf_len %u, indices pre-cycled by %u, %ld ops", len, pre, nops);
	bool was_full = false, was_empty_after_data = false, high = false, wrapped = false;
	unsigned long total = pre;
	for (long i = 0; i < nops && !c.failed; i++) {
		if (big && t.weighted({ 3, 1 }) == 1) {
			// burst: fill to (nearly) full or drain to (nearly) empty, checking every step
			bool fill = t.flip();
			unsigned leave = t.choose(3);
			c.note(fill ? "burst put until %u free" : "burst get until %u left", leave);
			while (!c.failed && (fill ? q.size() + leave < len - 1 : q.size() > leave)) {
				if (fill) {
					int d = (int)((total * 7 + 3) & 0xff);
					int r = ar_put(d);
					CHECK(c, r == 1, "ringbuf_put failed with %zu of %u unread bytes in the buffer", q.size(), len - 1);
					q.push_back(d);
					total++;
				} else {
					int r = ar_get();
					CHECK(c, r == q.front(), "ringbuf_get returned %d, expected %d (%zu unread bytes)", r, q.front(), q.size());
					q.pop_front();
				}
			}
			if (fill && leave == 0)
				was_full = true;
			if (!fill && leave == 0)
				was_empty_after_data = true;
			if (total >= len)
				wrapped = true;
			continue;
		}
		switch (t.enumerating ? t.choose(3) : t.weighted({ 4, 2, 4, 1 })) {
		case 0:
		case 1: {
			bool use_putchar = !t.enumerating && t.flip();
			int d = t.enumerating ? (int)(0x80 + i) : (t.weighted({ 3, 1 }) == 0 ? (int)t.choose(256) : 0x80 + (int)t.choose(128));
			bool full = q.size() == len - 1;
			if (d >= 0x80)
				high = true;
			if (use_putchar && !full) {
				c.note("putchar(0x%02x)", d);
				ar_putchar((char)d); // would spin forever on a full buffer: only called when there is room
				q.push_back(d);
			} else {
				int r = ar_put(d);
				c.note("put(0x%02x) -> %d", d, r);
				CHECK(c, r == (int)!full, "ringbuf_put returned %d with %zu of %u unread bytes in the buffer", r, q.size(), len - 1);
				if (!full)
					q.push_back(d);
				else
					was_full = true;
			}
			if (++total >= len)
				wrapped = true;
			break;
		}
		case 2: {
			int r = ar_get();
			int e = q.empty() ? -1 : q.front();
			c.note("get() -> %d", r);
			CHECK(c, r == e, "ringbuf_get returned %d, expected %d (%zu unread bytes)", r, e, q.size());
			if (!q.empty()) {
				q.pop_front();
				if (q.empty())
					was_empty_after_data = true;
			}
			break;
		}
		case 3: {
			int r = ar_empty();
			CHECK(c, r == (int)q.empty(), "ringbuf_empty returned %d with %zu unread bytes", r, q.size());
			break;
		}
		}
	}
	// final drain
	while (!q.empty() && !c.failed) {
		int r = ar_get();
		CHECK(c, r == q.front(), "final drain: ringbuf_get returned %d, expected %d", r, q.front());
		q.pop_front();
	}
	if (!c.failed)
		CHECK(c, ar_get() == -1 && ar_empty(), "buffer not empty after the final drain");
	if (was_full) c.cls("buffer-was-full");
	if (was_empty_after_data) c.cls("buffer-ran-empty");
	if (high) c.cls("byte-values>=0x80");
	if (wrapped) c.cls("index-wrapped");
	c.nontrivial = was_full && was_empty_after_data && wrapped;
}
