// C05, sequential half: the ring buffer against a FIFO model for every length, start index and byte
// value, in an exactly-sized heap block under ASan.
#include <deque>

#include "../core/tape.hpp"

extern "C" {
void ar_setup(unsigned buf_len);
int ar_put(int d);
void ar_putchar(int ch);
int ar_get(void);
int ar_empty(void);
int ar_long_haul(unsigned long long len, unsigned hold, unsigned long long pairs, char *msg, size_t msglen);
}

const char *H_NAME = "ringseq";

// long hauls: histories and lengths no random sequence reaches - more than 2^32 bytes through one small ring (index
// arithmetic that is only right until a counter wraps), and rings of 2^31 bytes and more (index arithmetic in int)
struct Haul {
	unsigned long long len;
	unsigned hold;
	unsigned long long pairs;
	bool heavy; // about a minute or more: thorough tier only
	const char *what;
};
static const Haul HAULS[] = {
	{ 3, 1, 200000, false, "ring of 3 bytes, 1 in flight, 200 000 bytes" },
	{ 7, 5, (1ull << 24) + 1000, false, "ring of 7 bytes, 5 in flight, 2^24+1000 bytes" },
	{ 255, 200, (1ull << 24) + 1000, false, "ring of 255 bytes, 200 in flight, 2^24+1000 bytes" },
	{ 65537, 65000, (1ull << 24) + 1000, false, "ring of 65537 bytes, 65000 in flight, 2^24+1000 bytes" },
	{ 3, 1, (1ull << 32) + 1000, true, "ring of 3 bytes, 1 in flight, 2^32+1000 bytes" },
	{ 7, 5, (1ull << 32) + 1000, true, "ring of 7 bytes, 5 in flight, 2^32+1000 bytes" },
	{ 6, 2, (1ull << 32) + 1000, true, "ring of 6 bytes, 2 in flight, 2^32+1000 bytes" },
	{ (1ull << 31) + 5, 3, (1ull << 31) + 2000, true, "ring of 2^31+5 bytes, 3 in flight, one full lap" },
	{ (1ull << 31), 3, (1ull << 31) + 2000, true, "ring of 2^31 bytes, 3 in flight, one full lap" },
	{ (1ull << 32) - 1, 3, (1ull << 32) + 2000, true, "ring of 2^32-1 bytes, 3 in flight, one full lap" },
};
static const int NHAUL = sizeof HAULS / sizeof *HAULS;

static void haul_case(Ctx &c, int i)
{
	char msg[300] = "";
	c.note("long haul: %s", HAULS[i].what);
	c.cls("long-haul");
	c.nontrivial = true;
	int r = ar_long_haul(HAULS[i].len, HAULS[i].hold, HAULS[i].pairs, msg, sizeof msg);
	if (r == 1)
		c.fail("%s", msg);
	else if (r == 2)
		c.cls("long-haul-skipped (cannot map the region)");
}

void h_custom(long worker, long workers, long seed, std::map<std::string, std::string> &params, CustomOut &o)
{
	(void)seed;
	bool heavy = params.count("heavy") && params["heavy"] != "0";
	for (int i = 0; i < NHAUL && !o.failed; i++) {
		if ((long)(i % workers) != worker || (HAULS[i].heavy && !heavy))
			continue;
		Tape t;
		Ctx c(t);
		if (engine_custom_case) {
			char pl[40];
			snprintf(pl, sizeof pl, "param haul=%d\n", i + 1);
			engine_custom_case(0, pl);
		}
		haul_case(c, i);
		o.evaluations++;
		o.nontrivial++;
		o.distinct++;
		o.classes["long-haul"]++;
		if (HAULS[i].pairs > (1ull << 32))
			o.classes["more-than-2^32-bytes-through-one-ring"]++;
		if (HAULS[i].len >= (1ull << 31))
			o.classes["ring-of-2^31-bytes-or-more"]++;
		o.samples.push_back(HAULS[i].what);
		if (c.failed) {
			o.failed = true;
			o.failmsg = c.failmsg;
			o.fail_tape = {};
			o.fail_params["haul"] = std::to_string(i + 1);
		}
	}
}

void h_run(Ctx &c)
{
	Tape &t = c.t;
	if (long h = c.param("haul", 0)) { // replay path of the long-haul stage
		haul_case(c, (int)h - 1);
		return;
	}
	unsigned len;
	bool big = false;
	if (t.enumerating)
		len = (unsigned)c.param("len", 3);
	else
		switch (t.weighted({ 12, 4, 1 })) {
		default:
		case 0: len = 2 + t.choose(7); break;
		case 1: len = 2 + t.choose(63); break;
		case 2: { // the property says every buffer length >= 2: lengths around and beyond 2^16
			static const unsigned BIG[] = { 255, 256, 257, 65535, 65536, 65537, 70000 };
			len = BIG[t.choose(7)];
			big = true;
			c.cls("large-buffer-length");
			break;
		}
		}
	ar_setup(len);
	std::deque<int> q;
	// pre-cycle through the API so that the indices start anywhere
	unsigned pre = t.enumerating ? (unsigned)c.param("pre", 0) : big ? (t.flip() ? len - 1 - t.choose(4) : t.choose(len)) : t.choose(2 * len + 1);
	for (unsigned i = 0; i < pre; i++) {
		ar_put(0x55);
		ar_get();
	}
	long nops = t.enumerating ? c.param("ops", 6) : t.range(0, c.param("maxops", 80));
	c.note("buf_len %u, indices pre-cycled by %u, %ld ops", len, pre, nops);
	bool was_full = false, was_empty_after_data = false, high = false, wrapped = false;
	unsigned long total = pre;
	for (long i = 0; i < nops && !c.failed; i++) {
		if (big && t.weighted({ 3, 1 }) == 1) {
			// burst: fill to (nearly) full or drain to (nearly) empty, checking every step
			bool fill = t.flip();
			unsigned leave = t.choose(3);
			c.note(fill ? "burst put until %u free" : "burst get until %u left", leave);
			while (!c.failed && (fill ? q.size() + leave < len - 1 : q.size() > leave)) {
				if (fill) {
					int d = (int)((total * 7 + 3) & 0xff);
					int r = ar_put(d);
					CHECK(c, r == 1, "ringbuf_put failed with %zu of %u unread bytes in the buffer", q.size(), len - 1);
					q.push_back(d);
					total++;
				} else {
					int r = ar_get();
					CHECK(c, r == q.front(), "ringbuf_get returned %d, expected %d (%zu unread bytes)", r, q.front(), q.size());
					q.pop_front();
				}
			}
			if (fill && leave == 0)
				was_full = true;
			if (!fill && leave == 0)
				was_empty_after_data = true;
			if (total >= len)
				wrapped = true;
			continue;
		}
		switch (t.enumerating ? t.choose(3) : t.weighted({ 4, 2, 4, 1 })) {
		case 0:
		case 1: {
			bool use_putchar = !t.enumerating && t.flip();
			int d = t.enumerating ? (int)(0x80 + i) : (t.weighted({ 3, 1 }) == 0 ? (int)t.choose(256) : 0x80 + (int)t.choose(128));
			bool full = q.size() == len - 1;
			if (d >= 0x80)
				high = true;
			if (use_putchar && !full) {
				c.note("putchar(0x%02x)", d);
				ar_putchar((char)d); // would spin forever on a full buffer: only called when there is room
				q.push_back(d);
			} else {
				int r = ar_put(d);
				c.note("put(0x%02x) -> %d", d, r);
				CHECK(c, r == (int)!full, "ringbuf_put returned %d with %zu of %u unread bytes in the buffer", r, q.size(), len - 1);
				if (!full)
					q.push_back(d);
				else
					was_full = true;
			}
			if (++total >= len)
				wrapped = true;
			break;
		}
		case 2: {
			int r = ar_get();
			int e = q.empty() ? -1 : q.front();
			c.note("get() -> %d", r);
			CHECK(c, r == e, "ringbuf_get returned %d, expected %d (%zu unread bytes)", r, e, q.size());
			if (!q.empty()) {
				q.pop_front();
				if (q.empty())
					was_empty_after_data = true;
			}
			break;
		}
		case 3: {
			int r = ar_empty();
			CHECK(c, r == (int)q.empty(), "ringbuf_empty returned %d with %zu unread bytes", r, q.size());
			break;
		}
		}
	}
	// final drain
	while (!q.empty() && !c.failed) {
		int r = ar_get();
		CHECK(c, r == q.front(), "final drain: ringbuf_get returned %d, expected %d", r, q.front());
		q.pop_front();
	}
	if (!c.failed)
		CHECK(c, ar_get() == -1 && ar_empty(), "buffer not empty after the final drain");
	if (was_full) c.cls("buffer-was-full");
	if (was_empty_after_data) c.cls("buffer-ran-empty");
	if (high) c.cls("byte-values>=0x80");
	if (wrapped) c.cls("index-wrapped");
	c.nontrivial = was_full && was_empty_after_data && wrapped;
}
