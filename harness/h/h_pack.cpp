// C12 - pack/unpack never leaves the buffer, fails stickily, uses fixed byte order.
// Oracle: (size, 64-bit cursor, byte image) model; ASan guards both sides of every block.
#include "../core/tape.hpp"

extern "C" {
void ap_init(unsigned size, const uint8_t *content);
void ap_rewind(void);
const uint8_t *ap_buf(void);
int ap_consumed(void);
int ap_remaining(void);
int ap_has_pack(int op);
int ap_has_unpack(int op);
void ap_pack(int op, uint32_t v);
int64_t ap_unpack(int op);
void ap_pack_bytes(const uint8_t *src, int null_src, unsigned n);
void ap_unpack_bytes(uint8_t *dst, int null_dst, unsigned n);
}

const char *H_NAME = "pack";

namespace {
enum { P_S16LE, P_U16BE, P_U16LE, P_S32LE, P_U32LE, P_CHAR, P_S8, P_U8, P_S16BE, P_S32BE, P_U32BE, P_N };
enum { U_CHAR, U_S8, U_U8, U_U16LE, U_U32LE, U_S16BE, U_S16LE, U_U16BE, U_S32BE, U_S32LE, U_U32BE, U_N };
struct Info {
	const char *name;
	int width;
	bool be, sign;
};
const Info PINFO[P_N] = { { "pack_s16le", 2, false, true }, { "pack_u16be", 2, true, false }, { "pack_u16le", 2, false, false },
			  { "pack_s32le", 4, false, true }, { "pack_u32le", 4, false, false }, { "pack_char", 1, false, false },
			  { "pack_s8", 1, false, true },   { "pack_u8", 1, false, false },   { "pack_s16be", 2, true, true },
			  { "pack_s32be", 4, true, true }, { "pack_u32be", 4, true, false } };
const Info UINFO[U_N] = { { "unpack_char", 1, false, false }, { "unpack_s8", 1, false, true }, { "unpack_u8", 1, false, false },
			  { "unpack_u16le", 2, false, false }, { "unpack_u32le", 4, false, false }, { "unpack_s16be", 2, true, true },
			  { "unpack_s16le", 2, false, true }, { "unpack_u16be", 2, true, false }, { "unpack_s32be", 4, true, true },
			  { "unpack_s32le", 4, false, true }, { "unpack_u32be", 4, true, false } };

const uint32_t EDGE[] = { 0, 1, 0x7f, 0x80, 0xff, 0x100, 0x1234, 0x7fff, 0x8000, 0xffff, 0x10000, 0x12345678,
			  0x7fffffff, 0x80000000u, 0xfffefdfc, 0xffffffffu };

struct Model {
	uint64_t cursor = 0;
	unsigned size = 0;
	std::vector<uint8_t> img;
	bool overflowed = false;
	// returns start offset if the item fits, -1 otherwise
	long transfer(unsigned len)
	{
		uint64_t start = cursor;
		cursor += len;
		if (cursor <= size)
			return (long)start;
		overflowed = true;
		return -1;
	}
};

uint32_t gen_value(Tape &t)
{
	if (t.enumerating)
		return EDGE[t.choose(4) * 5 % 16];
	return t.flip() ? t.u32() : EDGE[t.choose(sizeof EDGE / sizeof *EDGE)];
}

int64_t decode(const uint8_t *p, const Info &i)
{
	uint64_t v = 0;
	for (int k = 0; k < i.width; k++) {
		int idx = i.be ? k : i.width - 1 - k;
		v = (v << 8) | p[idx];
	}
	if (i.sign) {
		int sh = 64 - 8 * i.width;
		return (int64_t)(v << sh) >> sh;
	}
	return (int64_t)v;
}

void compare_state(Ctx &c, Model &m, const char *after)
{
	if (c.failed)
		return;
	int cons = ap_consumed(), rem = ap_remaining();
	CHECK(c, cons == (int)m.cursor, "after %s: rf_pack_consumed=%d, %llu bytes were requested", after, cons,
	      (unsigned long long)m.cursor);
	CHECK(c, rem == (int)((int64_t)m.size - (int64_t)m.cursor), "after %s: rf_pack_remaining=%d, expected %lld", after,
	      rem, (long long)((int64_t)m.size - (int64_t)m.cursor));
	const uint8_t *b = ap_buf();
	if (m.size == 0 || memcmp(b, m.img.data(), m.size) == 0)
		return;
	for (unsigned i = 0; i < m.size && !c.failed; i++)
		CHECK(c, b[i] == m.img[i], "after %s: buffer byte %u is 0x%02x, expected 0x%02x", after, i, b[i], m.img[i]);
}

struct Packed {
	int kind; // -1 bytes, else P_*
	uint32_t v;
	std::vector<uint8_t> bytes;
	bool fit;
};
} // namespace

void h_run(Ctx &c)
{
	Tape &t = c.t;
	Model m;
	unsigned maxsize = (unsigned)c.param("maxsize", 64);
	// "any buffer size": one case in six uses a buffer (and byte arrays) around and beyond 2^8 and 2^16 bytes,
	// where a narrowed length or cursor type would first show
	static const unsigned BIGSZ[] = { 255, 256, 257, 300, 511, 512, 513, 1000, 4096, 65535, 65536, 65537, 70000 };
	static const unsigned BIGN[] = { 250, 255, 256, 257, 260, 300, 511, 512, 513, 1000, 65534, 65535, 65536, 65537, 66000 };
	bool big = !t.enumerating && c.feat(2) && c.param("big", 1) && t.weighted({ 5, 1 }) == 1;
	if (big) {
		m.size = BIGSZ[t.choose(sizeof BIGSZ / sizeof *BIGSZ)];
		c.cls("big-buffer");
	} else
		m.size = (unsigned)t.choose(maxsize + 1);
	unsigned fillmode = t.enumerating ? 1 : t.choose(big ? 2 : 3);
	m.img.resize(m.size);
	for (unsigned i = 0; i < m.size; i++)
		m.img[i] = fillmode == 0 ? 0xA5 : fillmode == 1 ? (uint8_t)(i * 37 + 11) : (uint8_t)t.choose(256);
	// (a NULL "buffer" of 0 bytes - the sizing-pass idiom - is deliberately not generated: the unchanged code then
	// calls memcpy(NULL, src, 0) for a zero-length array, which UBSan reports although no byte is touched; the property
	// speaks of buffers, and a zero-sized heap block already covers "size 0")
	ap_init(m.size, m.img.data());
	long maxops = c.param("maxops", 24);
	long nops = t.enumerating ? c.param("ops", 3) : t.range(0, maxops);
	c.note("buffer size %u, %ld ops", m.size, nops);
	std::vector<Packed> packed;
	bool exact = false, pure_pack = true;
	char what[128];
	for (long step = 0; step < nops && !c.failed; step++) {
		// 0 pack scalar, 1 pack bytes, 2 unpack scalar, 3 unpack bytes, 4 bytes sized relative to what is left
		unsigned kind = t.weighted({ 4, 2, 3, 2, 2 });
		if (kind == 0) {
			std::vector<int> av;
			for (int o = 0; o < P_N; o++)
				if (ap_has_pack(o))
					av.push_back(o);
			int op = av[t.choose(av.size())];
			uint32_t v = gen_value(t);
			const Info &I = PINFO[op];
			snprintf(what, sizeof what, "%s(0x%x)", I.name, v);
			ap_pack(op, v);
			long at = m.transfer(I.width);
			if (at >= 0) {
				for (int k = 0; k < I.width; k++) {
					int shift = I.be ? 8 * (I.width - 1 - k) : 8 * k;
					m.img[at + k] = (uint8_t)(v >> shift);
				}
				if (m.cursor == m.size)
					exact = true;
			}
			c.note("%s -> %s", what, at >= 0 ? "fits" : "does not fit");
			packed.push_back({ op, v, {}, at >= 0 });
		} else if (kind == 1 || kind == 3 || kind == 4) {
			bool unpack = kind == 3 || (kind == 4 && t.flip());
			unsigned n;
			if (kind == 4) {
				int64_t left = (int64_t)m.size - (int64_t)m.cursor;
				int64_t want = left + (int64_t)t.choose(3) - 1; // one short, exact, one too many
				n = want < 0 ? 0 : (want > 80 && !big) ? 80 : (unsigned)want;
			} else if (big && t.flip())
				n = BIGN[t.choose(sizeof BIGN / sizeof *BIGN)];
			else
				n = (unsigned)t.choose(t.enumerating ? 5 : 41);
			if (n >= 256)
				c.cls("byte-array>=256");
			bool null = t.weighted({ 3, 1 }) == 1;
			std::vector<uint8_t> data(n);
			if (!unpack) {
				if (big) {
					unsigned salt = t.choose(256), k = 0;
					for (auto &b : data)
						b = (uint8_t)(salt + 13 * k++);
				} else
					for (auto &b : data)
						b = t.enumerating ? (uint8_t)(0xC0 + step) : (uint8_t)t.choose(256);
				snprintf(what, sizeof what, "pack_bytes(%s, %u)", null ? "NULL" : "src", n);
				ap_pack_bytes(data.data(), null, n);
				long at = m.transfer(n);
				if (at >= 0) {
					for (unsigned k = 0; k < n; k++)
						m.img[at + k] = null ? 0 : data[k];
					if (m.cursor == m.size)
						exact = true;
				}
				if (null)
					c.cls("pack-null-source");
				c.note("%s -> %s", what, at >= 0 ? "fits" : "does not fit");
				if (null)
					std::fill(data.begin(), data.end(), 0);
				packed.push_back({ -1, 0, data, at >= 0 });
			} else {
				pure_pack = false;
				snprintf(what, sizeof what, "unpack_bytes(%s, %u)", null ? "NULL" : "dst", n);
				std::vector<uint8_t> out(n, 0xCC);
				ap_unpack_bytes(out.data(), null, n);
				long at = m.transfer(n);
				if (at >= 0 && m.cursor == m.size)
					exact = true;
				c.note("%s -> %s", what, at >= 0 ? "fits" : "does not fit");
				if (null)
					c.cls("unpack-null-destination");
				else
					for (unsigned k = 0; k < n && !c.failed; k++) {
						uint8_t exp = at >= 0 ? m.img[at + k] : 0;
						CHECK(c, out[k] == exp, "%s: output byte %u is 0x%02x, expected 0x%02x (%s)", what, k,
						      out[k], exp, at >= 0 ? "buffer content" : "zero fill on overflow");
					}
			}
		} else {
			pure_pack = false;
			std::vector<int> av;
			for (int o = 0; o < U_N; o++)
				if (ap_has_unpack(o))
					av.push_back(o);
			int op = av[t.choose(av.size())];
			const Info &I = UINFO[op];
			int64_t got = ap_unpack(op);
			long at = m.transfer(I.width);
			int64_t exp = at >= 0 ? decode(&m.img[at], I) : 0;
			if (at >= 0 && m.cursor == m.size)
				exact = true;
			snprintf(what, sizeof what, "%s()", I.name);
			c.note("%s -> 0x%llx (%s)", what, (unsigned long long)got, at >= 0 ? "fits" : "does not fit");
			CHECK(c, got == exp, "%s returned 0x%llx, expected 0x%llx (%s)", what, (unsigned long long)got,
			      (unsigned long long)exp, at >= 0 ? "bytes at the cursor in the stated order" : "zero on overflow");
		}
		compare_state(c, m, what);
	}
	if (exact)
		c.cls("exact-fit");
	if (m.overflowed)
		c.cls("overflow");
	c.nontrivial = exact && m.overflowed;
	// round trip: everything that was packed (if nothing else moved the cursor) unpacks to the same values
	if (!c.failed && pure_pack && !packed.empty() && (t.enumerating || t.flip())) {
		c.cls("round-trip");
		ap_rewind();
		Model r;
		r.size = m.size;
		r.img = m.img;
		c.note("rewind; unpack %zu items", packed.size());
		for (auto &p : packed) {
			if (c.failed)
				break;
			if (p.kind == -1) {
				std::vector<uint8_t> out(p.bytes.size(), 0xCC);
				ap_unpack_bytes(out.data(), 0, (unsigned)out.size());
				long at = r.transfer((unsigned)out.size());
				if (at >= 0 && p.fit)
					CHECK(c, out == p.bytes, "round trip: unpack_bytes(%zu) did not return the packed bytes", out.size());
				continue;
			}
			const Info &PI = PINFO[p.kind];
			// matching unpack operation (same width and byte order), if this tree has one
			int uop = -1;
			for (int o = 0; o < U_N; o++)
				if (ap_has_unpack(o) && UINFO[o].width == PI.width && (UINFO[o].be == PI.be || PI.width == 1) &&
				    (uop < 0 || UINFO[o].sign == PI.sign))
					uop = o;
			if (uop < 0) {
				ap_unpack_bytes(nullptr, 1, PI.width); // NULL destination skips
				r.transfer(PI.width);
				c.cls("round-trip-skip-no-inverse");
				continue;
			}
			int64_t got = ap_unpack(uop);
			long at = r.transfer(PI.width);
			if (at >= 0 && p.fit) {
				uint64_t mask = PI.width == 4 ? 0xffffffffull : (1ull << (8 * PI.width)) - 1;
				CHECK(c, ((uint64_t)got & mask) == ((uint64_t)p.v & mask), "round trip: %s(0x%x) then %s() gave 0x%llx",
				      PI.name, p.v, UINFO[uop].name, (unsigned long long)got);
			}
		}
		if (!c.failed) {
			CHECK(c, ap_consumed() == (int)r.cursor, "round trip: consumed %d, expected %llu", ap_consumed(),
			      (unsigned long long)r.cursor);
		}
	}
}

// exhaustive value sweeps: all 65 536 values through every 16-bit operation, and every single-byte
// pattern over 0x00 / 0xff backgrounds through the 32-bit ones
void h_custom(long worker, long workers, long seed, std::map<std::string, std::string> &params, CustomOut &o)
{
	char buf[256];
	uint8_t zero[8] = { 0 };
	unsigned long n16 = 0, n32 = 0;
	auto fail = [&](const char *m) {
		if (!o.failed) {
			o.failed = true;
			o.failmsg = m;
			o.fail_tape = {}; // value sweeps replay through the rc/enum harness shape only approximately
		}
	};
	for (uint32_t v = worker; v < 65536 && !o.failed; v += workers) {
		for (int op = 0; op < P_N; op++) {
			if (!ap_has_pack(op) || PINFO[op].width != 2)
				continue;
			ap_init(2, zero);
			ap_pack(op, v);
			const uint8_t *b = ap_buf();
			uint8_t lo = v & 0xff, hi = v >> 8;
			uint8_t e0 = PINFO[op].be ? hi : lo, e1 = PINFO[op].be ? lo : hi;
			if (b[0] != e0 || b[1] != e1) {
				snprintf(buf, sizeof buf, "%s(0x%04x) wrote %02x %02x, expected %02x %02x", PINFO[op].name, v, b[0],
					 b[1], e0, e1);
				fail(buf);
			}
			n16++;
		}
		uint8_t img[2] = { (uint8_t)(v & 0xff), (uint8_t)(v >> 8) };
		for (int op = 0; op < U_N; op++) {
			if (!ap_has_unpack(op) || UINFO[op].width != 2)
				continue;
			ap_init(2, img);
			int64_t got = ap_unpack(op), exp = decode(img, UINFO[op]);
			if (got != exp) {
				snprintf(buf, sizeof buf, "%s on bytes %02x %02x returned 0x%llx, expected 0x%llx", UINFO[op].name,
					 img[0], img[1], (unsigned long long)got, (unsigned long long)exp);
				fail(buf);
			}
			n16++;
		}
	}
	if (worker == 0)
		for (int bg = 0; bg < 2 && !o.failed; bg++)
			for (int pos = 0; pos < 4; pos++)
				for (uint32_t bv = 0; bv < 256; bv++) {
					uint32_t v = bg ? 0xffffffffu : 0;
					v = (v & ~(0xffu << (8 * pos))) | (bv << (8 * pos));
					for (int op = 0; op < P_N; op++) {
						if (!ap_has_pack(op) || PINFO[op].width != 4)
							continue;
						ap_init(4, zero);
						ap_pack(op, v);
						const uint8_t *b = ap_buf();
						for (int k = 0; k < 4; k++) {
							uint8_t e = (uint8_t)(v >> (PINFO[op].be ? 8 * (3 - k) : 8 * k));
							if (b[k] != e) {
								snprintf(buf, sizeof buf, "%s(0x%08x) byte %d is %02x, expected %02x",
									 PINFO[op].name, v, k, b[k], e);
								fail(buf);
							}
						}
						n32++;
					}
					uint8_t img[4] = { (uint8_t)v, (uint8_t)(v >> 8), (uint8_t)(v >> 16), (uint8_t)(v >> 24) };
					for (int op = 0; op < U_N; op++) {
						if (!ap_has_unpack(op) || UINFO[op].width != 4)
							continue;
						ap_init(4, img);
						int64_t got = ap_unpack(op), exp = decode(img, UINFO[op]);
						if (got != exp) {
							snprintf(buf, sizeof buf, "%s on %02x %02x %02x %02x returned 0x%llx, expected 0x%llx",
								 UINFO[op].name, img[0], img[1], img[2], img[3], (unsigned long long)got,
								 (unsigned long long)exp);
							fail(buf);
						}
						n32++;
					}
				}
	o.evaluations = n16 + n32;
	o.nontrivial = o.distinct = 0; // value sweeps are not histories; they do not count as non-trivial cases
	o.classes["16-bit (op,value) pairs, all 65536 values"] = n16;
	o.classes["32-bit single-byte patterns"] = n32;
	o.samples.push_back("every 16-bit value through every implemented 16-bit pack and unpack operation");
	o.exhaustive = !o.failed;
}
