// C09 - linked list behaves as a sequence under every order of operations.
// Oracle: a vector per list + (list,position) per iterator, compared after
// every operation by full traversal and on every return value.
#include <algorithm>

#include "../core/tape.hpp"

extern "C" {
void al_reset(void);
void al_set_key(int n, int k);
void al_insert(int l, int n);
void al_push(int l, int n);
void al_insert_sorted(int l, int n);
int al_extract(int l);
int al_remove(int l, int n);
int al_contains(int l, int n, int it);
int al_iterate(int l, int it);
int al_next(int it);
void al_iter_insert(int it, int n);
int al_iter_remove(int it);
int al_empty(int l);
int al_peek(int l);
int al_next_is_null(int n);
int al_long_list(unsigned n, unsigned salt, char *msg, size_t msglen);
}

const char *H_NAME = "list";

namespace {
struct Iter {
	bool valid = false;
	int list = 0;
	size_t pos = 0;
};
struct Model {
	int NN, NL, NI, SORTED; // SORTED = index of the list kept sorted
	std::vector<std::vector<int>> L;
	std::vector<int> key, where; // where[n] = list or -1
	std::vector<Iter> it;
	int at(int l, size_t p) const { return p < L[l].size() ? L[l][p] : -1; }
	void invalidate(int l, int except = -1)
	{
		for (int i = 0; i < NI; i++)
			if (i != except && it[i].list == l)
				it[i].valid = false;
	}
};

const int TRAV = 3; // adapter iterator reserved for the oracle's traversal

void compare_all(Ctx &c, Model &m, const char *after)
{
	for (int l = 0; l < m.NL && !c.failed; l++) {
		std::vector<int> got;
		int n = al_iterate(l, TRAV);
		size_t guard = 0;
		while (n != -1 && guard++ < 64) {
			got.push_back(n);
			n = al_next(TRAV);
		}
		if (got != m.L[l]) {
			std::string a, b;
			for (int x : got)
				a += std::to_string(x) + " ";
			for (int x : m.L[l])
				b += std::to_string(x) + " ";
			c.fail("after %s: list %d traverses as [%s] but the abstract sequence is [%s]", after, l,
			       a.c_str(), b.c_str());
			return;
		}
		CHECK(c, al_empty(l) == (int)m.L[l].empty(), "after %s: list_empty(%d) wrong", after, l);
		CHECK(c, al_peek(l) == m.at(l, 0), "after %s: list_peek(%d)=%d, expected %d", after, l, al_peek(l),
		      m.at(l, 0));
		if (l == m.SORTED)
			for (size_t i = 1; i < m.L[l].size(); i++)
				CHECK(c, m.key[m.L[l][i - 1]] <= m.key[m.L[l][i]], "sorted list %d out of order", l);
	}
	for (int n = 0; n < m.NN && !c.failed; n++)
		if (m.where[n] < 0)
			CHECK(c, al_next_is_null(n), "after %s: node %d is in no list but its link is not NULL", after, n);
}
} // namespace

void h_run(Ctx &c)
{
	Tape &t = c.t;
	if (long n = c.param("longlist", 0)) { // replay path of the long-list stage (h_custom below)
		char msg[300] = "";
		unsigned salt = (unsigned)t.choose(1u << 20);
		c.note("one list of %ld nodes (salt %u): membership, iterator positions, removal, traversal, sorted insertion", n, salt);
		if (al_long_list((unsigned)n, salt, msg, sizeof msg))
			c.fail("%s", msg);
		c.cls("long-list");
		c.nontrivial = true;
		return;
	}
	Model m;
	m.NN = (int)c.param("nodes", 6);
	m.NL = (int)c.param("lists", 3);
	m.NI = (int)c.param("iters", 2);
	int nkeys = (int)c.param("keys", 3);
	m.SORTED = m.NL - 1;
	m.L.assign(m.NL, {});
	m.key.assign(m.NN, 0);
	m.where.assign(m.NN, -1);
	m.it.assign(m.NI, Iter());
	al_reset();
	long maxops = c.param("maxops", 60);
	long nops = t.enumerating ? c.param("ops", 4) : t.range(0, maxops);
	// the comparator returns the key difference (as the library's own duetime_cmp does): keys far apart make its
	// result large in magnitude (up to 2^30), not just -1/0/+1
	static const int SCALE[] = { 1, 1, 1000, 40000, 100000, 1 << 20, 1 << 29 };
	int scale = (!t.enumerating && c.feat(2)) ? SCALE[t.choose(sizeof SCALE / sizeof *SCALE)] : 1;
	if (scale >= 40000)
		c.cls("comparator-results-beyond-16-bits");
	for (int n = 0; n < m.NN; n++) {
		m.key[n] = (t.enumerating ? (n % nkeys) : (int)t.choose(nkeys)) * scale;
		al_set_key(n, m.key[n]);
	}
	if (c.want_log) {
		std::string ks;
		for (int k : m.key)
			ks += std::to_string(k) + " ";
		c.note("nodes=%d lists=%d (list %d sorted) iters=%d keys=[%s] ops=%ld", m.NN, m.NL, m.SORTED, m.NI,
		       ks.c_str(), nops);
	}
	bool removed_last_recently[4] = { false, false, false, false };
	char what[96];
	enum { INSERT, PUSH, SORTED_INS, EXTRACT, REMOVE, CONTAINS, ITERATE, NEXT, IT_INSERT, IT_REMOVE, NOPK };
	for (long step = 0; step < nops && !c.failed; step++) {
		int op = (int)t.choose(NOPK);
		snprintf(what, sizeof what, "(skipped op)");
		// free nodes / helper picks (construction, never rejection)
		std::vector<int> freen;
		for (int n = 0; n < m.NN; n++)
			if (m.where[n] < 0)
				freen.push_back(n);
		auto pick_general_list = [&]() { return m.NL > 1 ? (int)t.choose(m.NL - 1) : 0; };
		auto valid_iter = [&](bool need_current) {
			std::vector<int> v;
			for (int i = 0; i < m.NI; i++)
				if (m.it[i].valid && (!need_current || m.it[i].pos < m.L[m.it[i].list].size()))
					v.push_back(i);
			return v;
		};
		switch (op) {
		case INSERT:
		case PUSH: {
			if (freen.empty() || m.NL < 2) {
				c.cls("skipped-op");
				break;
			}
			int n = freen[t.choose(freen.size())], l = pick_general_list();
			bool was_empty = m.L[l].empty();
			snprintf(what, sizeof what, "%s(list %d, node %d)", op == INSERT ? "insert" : "push", l, n);
			c.note("%s", what);
			if (op == INSERT) {
				al_insert(l, n);
				m.L[l].push_back(n);
			} else {
				al_push(l, n);
				m.L[l].insert(m.L[l].begin(), n);
			}
			m.where[n] = l;
			m.invalidate(l);
			if (removed_last_recently[l]) {
				c.nontrivial = true;
				c.cls(was_empty ? "insert-after-list-emptied" : "insert-after-tail-removed");
				removed_last_recently[l] = false;
			}
			break;
		}
		case SORTED_INS: {
			if (freen.empty()) {
				c.cls("skipped-op");
				break;
			}
			int n = freen[t.choose(freen.size())], l = m.SORTED;
			snprintf(what, sizeof what, "insert_sorted(list %d, node %d key %d)", l, n, m.key[n]);
			c.note("%s", what);
			al_insert_sorted(l, n);
			auto &v = m.L[l];
			size_t p = 0;
			bool equal = false;
			while (p < v.size() && m.key[v[p]] <= m.key[n]) {
				equal |= m.key[v[p]] == m.key[n];
				p++;
			}
			v.insert(v.begin() + p, n);
			m.where[n] = l;
			m.invalidate(l);
			if (equal) {
				c.nontrivial = true;
				c.cls("sorted-insert-among-equals");
			}
			if (removed_last_recently[l]) {
				c.nontrivial = true;
				c.cls("insert-after-tail-removed");
				removed_last_recently[l] = false;
			}
			break;
		}
		case EXTRACT: {
			int l = (int)t.choose(m.NL);
			snprintf(what, sizeof what, "extract(list %d)", l);
			int got = al_extract(l), exp = m.at(l, 0);
			c.note("%s -> %d", what, got);
			CHECK(c, got == exp, "%s returned node %d, abstract sequence says %d", what, got, exp);
			if (exp >= 0) {
				if (m.L[l].size() == 1)
					removed_last_recently[l] = true;
				m.L[l].erase(m.L[l].begin());
				m.where[exp] = -1;
				m.invalidate(l);
			}
			break;
		}
		case REMOVE: {
			int l = (int)t.choose(m.NL), n = (int)t.choose(m.NN);
			snprintf(what, sizeof what, "remove(list %d, node %d)", l, n);
			int got = al_remove(l, n);
			c.note("%s -> %d", what, got);
			auto &v = m.L[l];
			auto f = std::find(v.begin(), v.end(), n);
			CHECK(c, got == (f != v.end()), "%s returned %d, abstract sequence says %d", what, got,
			      (int)(f != v.end()));
			if (f != v.end()) {
				if (f + 1 == v.end())
					removed_last_recently[l] = true;
				v.erase(f);
				m.where[n] = -1;
				m.invalidate(l);
			}
			break;
		}
		case CONTAINS: {
			int l = (int)t.choose(m.NL), n = (int)t.choose(m.NN);
			int it = (int)t.choose(m.NI + 1) - 1;
			snprintf(what, sizeof what, "contains(list %d, node %d, iter %d)", l, n, it);
			int got = al_contains(l, n, it);
			c.note("%s -> %d", what, got);
			auto &v = m.L[l];
			auto f = std::find(v.begin(), v.end(), n);
			CHECK(c, got == (f != v.end()), "%s returned %d, abstract sequence says %d", what, got,
			      (int)(f != v.end()));
			if (it >= 0) {
				m.it[it].valid = true;
				m.it[it].list = l;
				m.it[it].pos = f - v.begin(); // == size when not found
			}
			break;
		}
		case ITERATE: {
			int l = (int)t.choose(m.NL), it = (int)t.choose(m.NI);
			snprintf(what, sizeof what, "iterate(list %d, iter %d)", l, it);
			int got = al_iterate(l, it);
			c.note("%s -> %d", what, got);
			CHECK(c, got == m.at(l, 0), "%s returned %d, expected %d", what, got, m.at(l, 0));
			m.it[it] = Iter{ true, l, 0 };
			break;
		}
		case NEXT: {
			auto v = valid_iter(false);
			if (v.empty()) {
				c.cls("skipped-op");
				break;
			}
			int it = v[t.choose(v.size())];
			Iter &I = m.it[it];
			snprintf(what, sizeof what, "iterator_next(iter %d)", it);
			int got = al_next(it);
			c.note("%s -> %d", what, got);
			int exp;
			if (I.pos < m.L[I.list].size()) {
				I.pos++;
				exp = m.at(I.list, I.pos);
			} else {
				exp = -1;
				c.nontrivial = true;
				c.cls("next-past-the-end");
			}
			CHECK(c, got == exp, "%s returned %d, expected %d", what, got, exp);
			break;
		}
		case IT_INSERT: {
			auto v = valid_iter(false);
			std::vector<int> vv;
			for (int i : v)
				if (m.it[i].list != m.SORTED)
					vv.push_back(i);
			if (vv.empty() || freen.empty()) {
				c.cls("skipped-op");
				break;
			}
			int it = vv[t.choose(vv.size())], n = freen[t.choose(freen.size())];
			Iter &I = m.it[it];
			snprintf(what, sizeof what, "iterator_insert(iter %d @list %d pos %zu, node %d)", it, I.list, I.pos,
				 n);
			c.note("%s", what);
			al_iter_insert(it, n);
			auto &L = m.L[I.list];
			if (I.pos >= L.size()) {
				c.nontrivial = true;
				c.cls("iterator-insert-at-end");
			}
			L.insert(L.begin() + I.pos, n);
			m.where[n] = I.list;
			m.invalidate(I.list, it);
			break;
		}
		case IT_REMOVE: {
			auto v = valid_iter(true);
			if (v.empty()) {
				c.cls("skipped-op");
				break;
			}
			int it = v[t.choose(v.size())];
			Iter &I = m.it[it];
			auto &L = m.L[I.list];
			snprintf(what, sizeof what, "iterator_remove(iter %d @list %d pos %zu)", it, I.list, I.pos);
			int got = al_iter_remove(it);
			c.note("%s -> %d", what, got);
			if (I.pos + 1 == L.size()) {
				removed_last_recently[I.list] = true;
				c.nontrivial = true;
				c.cls("iterator-remove-last");
			}
			m.where[L[I.pos]] = -1;
			L.erase(L.begin() + I.pos);
			CHECK(c, got == m.at(I.list, I.pos), "%s returned %d, expected %d", what, got, m.at(I.list, I.pos));
			m.invalidate(I.list, it);
			break;
		}
		}
		if (!c.failed)
			compare_all(c, m, what);
	}
}

// long lists: one list of n nodes, n around 2^8 and beyond 2^16 (a position counter narrower than the list is long,
// a comparator result squeezed into 16 bits: neither can show with six nodes)
void h_custom(long worker, long workers, long seed, std::map<std::string, std::string> &params, CustomOut &o)
{
	static const unsigned NS[] = { 255, 256, 257, 300, 4097, 65535, 65536, 65537, 65600, 70001, 131073, 200000 };
	(void)params;
	char msg[300], buf[200];
	for (unsigned i = 0; i < sizeof NS / sizeof *NS && !o.failed; i++) {
		if ((long)(i % workers) != worker)
			continue;
		unsigned salt = (unsigned)(seed * 7919 + i) & 0xfffff;
		o.evaluations++;
		o.nontrivial++;
		o.distinct++;
		o.classes["long-list"]++;
		if (NS[i] > 65536)
			o.classes["list-longer-than-65536-nodes"]++;
		snprintf(buf, sizeof buf, "one list of %u nodes: membership/iterator probes, removal at depth, traversal, sorted insertion", NS[i]);
		o.samples.push_back(buf);
		msg[0] = 0;
		if (engine_custom_case) {
			snprintf(buf, sizeof buf, "param longlist=%u\n", NS[i]);
			engine_custom_case(1, buf)[0] = salt;
		}
		if (al_long_list(NS[i], salt, msg, sizeof msg)) {
			o.failed = true;
			o.failmsg = msg;
			o.fail_tape = { salt };
			o.fail_params["longlist"] = std::to_string(NS[i]);
		}
	}
}
