// C11 - tree iterators visit in the promised order, restore the tree, and free safely.
// Oracle: the harness' own recursive traversals over the shape it built (and the repo's recursive
// bintree_traverse_*), link-by-link comparison of the tree before/after, a logging deallocator that
// really frees (ASan) for bintree_free*.
#include <algorithm>
#include <functional>

#include "../core/tape.hpp"

extern "C" {
void at_destroy(void);
void at_build(int n, const int *left, const int *right, const int *is_list, int mis);
int at_check_links(int cleared_parent, int cleared_side, int dangling_parent, int dangling_side);
int at_iterate(int order, int root, int *out, int max);
int at_traverse(int order, int root, int *out, int max);
int at_free(int mode, int target, int *log, int max);
int at_list_traverse(int root, int *out, int max);
int at_list_iterate(int root, int *out, int max);
}

const char *H_NAME = "bintree";

namespace {
struct Shape {
	std::vector<int> L, R, parent, side;
	int add(int p, int s)
	{
		int id = (int)L.size();
		L.push_back(-1);
		R.push_back(-1);
		parent.push_back(p);
		side.push_back(s);
		if (p >= 0)
			(s == 0 ? L : R)[p] = id;
		return id;
	}
	int n() const { return (int)L.size(); }
};

// pre-order construction with a node budget: one existence bit per potential node while budget lasts.
// In enumerating mode this is a bijection between tapes and shapes with <= budget nodes.
void grow(Tape &t, Shape &s, int p, int side, int &budget, unsigned pl, unsigned pr)
{
	if (budget <= 0)
		return;
	bool exists = p < 0 ? true : (t.enumerating ? t.choose(2) : t.choose(100) < (side == 0 ? pl : pr));
	if (p < 0 && t.enumerating)
		exists = t.choose(2);
	if (!exists)
		return;
	budget--;
	int id = s.add(p, side);
	grow(t, s, id, 0, budget, pl, pr);
	grow(t, s, id, 1, budget, pl, pr);
}

void ref_order(const Shape &s, int root, int order, std::vector<int> &out)
{
	// explicit stack: the shapes include chains deeper than 2^16
	std::vector<std::pair<int, int>> st; // (node, stage)
	if (root >= 0)
		st.push_back({ root, 0 });
	while (!st.empty()) {
		auto &top = st.back();
		int i = top.first;
		switch (top.second++) {
		case 0:
			if (order == 1)
				out.push_back(i);
			if (s.L[i] >= 0)
				st.push_back({ s.L[i], 0 });
			break;
		case 1:
			if (order == 0)
				out.push_back(i);
			if (s.R[i] >= 0)
				st.push_back({ s.R[i], 0 });
			break;
		default:
			if (order == 2)
				out.push_back(i);
			st.pop_back();
			break;
		}
	}
}

std::string show(const std::vector<int> &v, size_t lim = 40)
{
	std::string o;
	for (size_t i = 0; i < v.size() && i < lim; i++)
		o += std::to_string(v[i]) + " ";
	if (v.size() > lim)
		o += "...";
	return o;
}

std::string show_shape(const Shape &s)
{
	std::string o;
	std::function<void(int)> rec = [&](int i) {
		if (i < 0) {
			o += ".";
			return;
		}
		if (s.L[i] < 0 && s.R[i] < 0) {
			o += std::to_string(i);
			return;
		}
		o += "(" + std::to_string(i) + " ";
		rec(s.L[i]);
		o += " ";
		rec(s.R[i]);
		o += ")";
	};
	rec(s.n() ? 0 : -1);
	return o;
}

const char *ORD[3] = { "in-order", "pre-order", "post-order" };

void check_iterators(Ctx &c, const Shape &s, int mis)
{
	int n = s.n();
	std::vector<int> out(n + 2), ref;
	for (int order = 0; order < 3 && !c.failed; order++) {
		at_build(n, s.L.data(), s.R.data(), nullptr, mis);
		int root = n ? 0 : -1;
		int k = at_iterate(order, root, out.data(), n + 1);
		ref.clear();
		ref_order(s, root, order, ref);
		std::vector<int> got(out.begin(), out.begin() + (k < 0 ? n + 1 : k));
		if (k < 0 || got != ref) {
			c.fail("%s iterator over %s returned [%s%s], recursive traversal is [%s]", ORD[order], show_shape(s).c_str(),
			       show(got).c_str(), k < 0 ? "... (more nodes than the tree has)" : "", show(ref).c_str());
			return;
		}
		int bad = at_check_links(-1, 0, -1, 0);
		if (bad >= 0) {
			c.fail("after %s iteration ran to completion over %s, node %d does not have its original links", ORD[order],
			       show_shape(s).c_str(), bad);
			return;
		}
		// the repo's own recursive traversal must agree too (it is what the statement compares with)
		k = at_traverse(order, root, out.data(), n + 1);
		got.assign(out.begin(), out.begin() + k);
		if (got != ref) {
			c.fail("bintree_traverse_%s over %s visits [%s], expected [%s]", ORD[order], show_shape(s).c_str(),
			       show(got).c_str(), show(ref).c_str());
			return;
		}
		// a second full iteration over the restored tree gives the same answer
		k = at_iterate(order, root, out.data(), n + 1);
		got.assign(out.begin(), out.begin() + (k < 0 ? 0 : k));
		if (got != ref) {
			c.fail("second %s iteration over %s returned [%s], expected [%s]", ORD[order], show_shape(s).c_str(),
			       show(got).c_str(), show(ref).c_str());
			return;
		}
	}
}

void subtree(const Shape &s, int i, std::vector<int> &out)
{
	if (i < 0)
		return;
	out.push_back(i);
	subtree(s, s.L[i], out);
	subtree(s, s.R[i], out);
}

// mode 0: bintree_free(target); 1/2: bintree_free_left/right(target)
void check_free(Ctx &c, const Shape &s, int mode, int target, int mis)
{
	int n = s.n();
	at_build(n, s.L.data(), s.R.data(), nullptr, mis);
	int sroot = mode == 0 ? target : mode == 1 ? s.L[target] : s.R[target];
	std::vector<int> exp;
	subtree(s, sroot, exp);
	std::vector<int> log(n + 2);
	int k = at_free(mode, target, log.data(), n + 1);
	const char *fn = mode == 0 ? "bintree_free" : mode == 1 ? "bintree_free_left" : "bintree_free_right";
	std::vector<int> got(log.begin(), log.begin() + std::min(k, n + 1));
	std::vector<int> a = got, b = exp;
	std::sort(a.begin(), a.end());
	std::sort(b.begin(), b.end());
	if (a != b) {
		c.fail("%s(node %d) of %s deallocated [%s], the subtree is [%s]", fn, target, show_shape(s).c_str(), show(got).c_str(),
		       show(exp).c_str());
		return;
	}
	// children before parents
	std::vector<int> pos(n, -1);
	for (size_t i = 0; i < got.size(); i++)
		pos[got[i]] = (int)i;
	for (int x : exp) {
		int p = s.parent[x];
		if (x != sroot && p >= 0 && pos[p] >= 0 && pos[p] < pos[x]) {
			c.fail("%s(node %d) of %s deallocated parent %d before its child %d (order [%s])", fn, target,
			       show_shape(s).c_str(), p, x, show(got).c_str());
			return;
		}
	}
	int bad;
	if (mode == 0)
		bad = at_check_links(-1, 0, s.parent[target], s.parent[target] >= 0 ? s.side[target] : 0);
	else
		bad = at_check_links(target, mode - 1, -1, 0);
	if (bad >= 0)
		c.fail("after %s(node %d) of %s, surviving node %d does not have the expected links%s", fn, target, show_shape(s).c_str(),
		       bad, (mode != 0 && bad == target) ? " (the parent's link must be cleared, its other link untouched)" : "");
}
} // namespace

// ---- deep shapes: chains, zig-zags, combs and list spines longer than 2^16 (a 16-bit depth or position counter
// inside an iterator can only show here).  No recursion anywhere on this path; messages do not print the shape.
static const char *DEEP_NAME[] = { "left chain of 65537 nodes", "right chain of 65540 nodes", "zig-zag chain of 70001 nodes",
				   "right chain of 65536 nodes each with a left leaf (131072 nodes)", "left chain of 131075 nodes",
				   "left-leaning list spine of 65537 list nodes", "right-leaning list spine of 65537 list nodes",
				   "left-leaning list spine of 65536 list nodes", "left-leaning list spine of 300 list nodes",
				   "root whose left child heads a right chain of 5000 nodes", "root whose left child heads a right chain of 70000 nodes",
				   "root whose right child heads a left chain of 5000 nodes",
				   "right chain of 300 nodes, each with a left child that heads a right chain of 300" };
static const int DEEP_N = 13;

static void deep_case(Ctx &c, int which)
{
	c.note("deep case %d: %s", which, DEEP_NAME[which]);
	c.cls("deep-shape (depth >= 65536)");
	c.nontrivial = true;
	if (which <= 4 || which >= 9) {
		Shape s;
		int p = -1;
		if (which == 9 || which == 10) { // the in-order predecessor of the root is thousands of right links below its left child
			int root = s.add(-1, 0);
			p = s.add(root, 0);
			for (int i = 0, n = which == 9 ? 5000 : 70000; i < n; i++)
				p = s.add(p, 1);
		} else if (which == 11) {
			int root = s.add(-1, 0);
			p = s.add(root, 1);
			for (int i = 0; i < 5000; i++)
				p = s.add(p, 0);
		} else if (which == 12) {
			for (int i = 0; i < 300; i++) {
				p = s.add(p, 1);
				int q = s.add(p, 0);
				for (int k = 0; k < 300; k++)
					q = s.add(q, 1);
			}
		} else if (which == 0 || which == 4)
			for (int i = 0, n = which == 0 ? 65537 : 131075; i < n; i++)
				p = s.add(p, 0);
		else if (which == 1)
			for (int i = 0; i < 65540; i++)
				p = s.add(p, 1);
		else if (which == 2)
			for (int i = 0, side = 0; i < 70001; i++, side ^= 1)
				p = s.add(p, side);
		else
			for (int i = 0; i < 65536; i++) {
				p = s.add(p, 1);
				s.add(p, 0);
			}
		int n = s.n();
		std::vector<int> out(n + 2), ref;
		for (int order = 0; order < 3 && !c.failed; order++) {
			at_build(n, s.L.data(), s.R.data(), nullptr, 0);
			int k = at_iterate(order, 0, out.data(), n + 1);
			ref.clear();
			ref_order(s, 0, order, ref);
			if (k != n) {
				c.fail("%s iterator over a %s returned %s nodes (%d)", ORD[order], DEEP_NAME[which], k < 0 ? "too many" : "the wrong number of", k);
				return;
			}
			for (int i = 0; i < n; i++)
				if (out[i] != ref[i]) {
					c.fail("%s iterator over a %s: element %d of the sequence is node %d, the recursive order has node %d there", ORD[order],
					       DEEP_NAME[which], i, out[i], ref[i]);
					return;
				}
			int bad = at_check_links(-1, 0, -1, 0);
			if (bad >= 0) {
				c.fail("after %s iteration ran to completion over a %s, node %d does not have its original links", ORD[order], DEEP_NAME[which], bad);
				return;
			}
		}
		// bintree_free of the whole tree: every node once, children before parents
		at_build(n, s.L.data(), s.R.data(), nullptr, 0);
		std::vector<int> log(n + 2), pos(n, -1);
		int k = at_free(0, 0, log.data(), n + 1);
		if (k != n) {
			c.fail("bintree_free of a %s passed %d nodes to the deallocator, the tree has %d", DEEP_NAME[which], k, n);
			return;
		}
		for (int i = 0; i < n; i++)
			pos[log[i]] = i;
		for (int x = 1; x < n; x++)
			if (pos[x] < 0 || pos[s.parent[x]] < pos[x]) {
				c.fail("bintree_free of a %s: node %d was %s", DEEP_NAME[which], x, pos[x] < 0 ? "never deallocated" : "deallocated after its parent");
				return;
			}
		at_destroy();
		return;
	}
	// list spines (the left-leaning iterator is quadratic in the spine length: a single case of each kind)
	int len = which == 7 ? 65536 : which == 8 ? 300 : 65537;
	bool left = which != 6;
	std::vector<int> L, R, isl, exp;
	auto add = [&](int il) {
		L.push_back(-1);
		R.push_back(-1);
		isl.push_back(il);
		return (int)L.size() - 1;
	};
	int root;
	if (left) {
		int e1 = add(0), e2 = add(0);
		exp = { e1, e2 };
		int cur = add(1);
		L[cur] = e1, R[cur] = e2;
		for (int k = 1; k < len; k++) {
			int e = add(0), l = add(1);
			L[l] = cur, R[l] = e;
			cur = l;
			exp.push_back(e);
		}
		root = cur;
	} else {
		std::vector<int> ls, es;
		for (int k = 0; k < len; k++) {
			ls.push_back(add(1));
			es.push_back(add(0));
		}
		int last = add(0);
		for (int k = 0; k < len; k++) {
			L[ls[k]] = es[k];
			R[ls[k]] = k + 1 < len ? ls[k + 1] : last;
			exp.push_back(es[k]);
		}
		exp.push_back(last);
		root = ls[0];
	}
	int n = (int)L.size();
	at_build(n, L.data(), R.data(), isl.data(), 0);
	std::vector<int> out(n + 2);
	int k = at_list_iterate(root, out.data(), n + 1);
	if (k != (int)exp.size())
		c.fail("list iterator over a %s yields %d elements, the list has %zu", DEEP_NAME[which], k, exp.size());
	else
		for (size_t i = 0; i < exp.size(); i++)
			if (out[i] != exp[i]) {
				c.fail("list iterator over a %s: element %zu is node %d, the list has node %d there", DEEP_NAME[which], i, out[i], exp[i]);
				break;
			}
	if (!c.failed && at_check_links(-1, 0, -1, 0) >= 0)
		c.fail("list iteration over a %s modified the tree", DEEP_NAME[which]);
	at_destroy();
}

void h_custom(long worker, long workers, long seed, std::map<std::string, std::string> &params, CustomOut &o)
{
	(void)seed;
	bool heavy = params.count("heavy") && params["heavy"] != "0"; // cases 3 and 4 take about a minute each (thorough tier)
	for (int w = 0; w < DEEP_N && !o.failed; w++) {
		if ((long)(w % workers) != worker || (!heavy && (w == 3 || w == 4)))
			continue;
		Tape t;
		Ctx c(t);
		if (engine_custom_case) {
			char pl[40];
			snprintf(pl, sizeof pl, "param deep=%d\n", w + 1);
			engine_custom_case(0, pl);
		}
		deep_case(c, w);
		o.evaluations++;
		o.nontrivial++;
		o.distinct++;
		o.classes["deep-shape (depth >= 65536)"]++;
		o.samples.push_back(DEEP_NAME[w]);
		if (c.failed) {
			o.failed = true;
			o.failmsg = c.failmsg;
			o.fail_tape = {};
			o.fail_params["deep"] = std::to_string(w + 1);
		}
	}
}

void h_run(Ctx &c)
{
	Tape &t = c.t;
	if (long d = c.param("deep", 0)) { // replay path of the deep-shape stage
		deep_case(c, (int)d - 1);
		return;
	}
	long forced = c.param("kind", -1);
	unsigned kind = forced >= 0 ? (unsigned)forced : t.weighted({ 6, 2, 2 });
	if (kind == 0 || kind == 1) {
		// kind 0: small shape, iterators + every free; kind 1: large / degenerate shape, iterators + free of the root
		Shape s;
		int budget;
		unsigned pl = 50, pr = 50;
		if (t.enumerating)
			budget = (int)c.param("nodes", 6);
		else if (kind == 0)
			budget = (int)t.choose(13);
		else {
			budget = 1 + (int)t.choose(300);
			switch (t.choose(6)) {
			case 0: pl = 100, pr = 0; break;  // left spine
			case 1: pl = 0, pr = 100; break;  // right spine
			case 2: pl = 95, pr = 10; break;
			case 3: pl = 10, pr = 95; break;
			case 4: pl = 100, pr = 100; break; // "complete" up to the budget (pre-order fill => left-heavy)
			case 5: pl = 70, pr = 70; break;
			}
		}
		int b = budget;
		if (kind == 1 && !t.enumerating && pl == 0 && pr == 100 && t.flip()) {
			// zig-zag: alternate sides
			int p = -1, side = 0;
			while (b-- > 0) {
				p = s.add(p, side);
				side ^= 1;
			}
		} else
			grow(t, s, -1, 0, b, pl, pr);
		int mis = t.enumerating ? (int)c.param("mis", 0) : (int)(t.weighted({ 3, 1 }) == 1);
		c.note("shape with %d nodes%s: %s", s.n(), mis ? " (nodes at addresses == 2 mod 4)" : "", show_shape(s).c_str());
		check_iterators(c, s, mis);
		bool two = false;
		for (int i = 0; i < s.n(); i++)
			two |= s.L[i] >= 0 && s.R[i] >= 0;
		if (s.n() >= 3 && two)
			c.nontrivial = true;
		if (s.n() == 0)
			c.cls("empty-tree");
		if (s.n() == 1)
			c.cls("single-node");
		if (mis)
			c.cls("two-byte-aligned-nodes");
		if (s.n() >= 50)
			c.cls("large-shape");
		if (c.failed || s.n() == 0)
			return;
		if (kind == 0) {
			for (int i = 0; i < s.n() && !c.failed; i++) {
				check_free(c, s, 0, i, mis);
				if (!c.failed)
					check_free(c, s, 1, i, mis);
				if (!c.failed)
					check_free(c, s, 2, i, mis);
			}
			c.cls("free-every-node-and-side");
		} else
			check_free(c, s, 0, 0, mis);
		at_destroy();
	} else {
		// list spines exactly as the header draws them
		int len = t.enumerating ? (int)t.choose((uint64_t)c.param("spine", 6) + 2) - 1 : (int)t.choose(22) - 1;
		bool left = t.flip();
		std::vector<int> L, R, isl;
		auto add = [&](int il) {
			L.push_back(-1);
			R.push_back(-1);
			isl.push_back(il);
			return (int)L.size() - 1;
		};
		int root = -1;
		std::vector<int> exp;
		if (len == 0 && c.feat(2) && t.flip()) {
			root = add(1); // a single, empty list node: no elements
			c.cls("right-leaning-spine-ending-in-an-empty-list-node");
		} else if (len == 0) {
			root = add(0); // a single element
			exp.push_back(root);
		} else if (len > 0) {
			// len list nodes, len+1 elements
			if (left) {
				// L(L(L(1,2),3),4): build bottom-up
				int e1 = add(0), e2 = add(0);
				exp = { e1, e2 };
				int cur = add(1);
				L[cur] = e1, R[cur] = e2;
				for (int k = 1; k < len; k++) {
					int e = add(0), l = add(1);
					L[l] = cur, R[l] = e;
					cur = l;
					exp.push_back(e);
				}
				root = cur;
			} else {
				// L(1,L(2,L(3,4)))
				std::vector<int> ls, es;
				for (int k = 0; k < len; k++) {
					ls.push_back(add(1));
					es.push_back(add(0));
				}
				// the spine ends in an element, as the header draws it, or in an empty list node (a nil-terminated list)
				bool nil_end = c.feat(2) && t.flip();
				int last = add(nil_end ? 1 : 0);
				for (int k = 0; k < len; k++) {
					L[ls[k]] = es[k];
					R[ls[k]] = k + 1 < len ? ls[k + 1] : last;
					exp.push_back(es[k]);
				}
				if (!nil_end)
					exp.push_back(last);
				else
					c.cls("right-leaning-spine-ending-in-an-empty-list-node");
				root = ls[0];
			}
		}
		int n = (int)L.size();
		at_build(n, L.data(), R.data(), isl.data(), 0);
		c.note("%s-leaning list spine with %d list nodes (%zu elements)", left ? "left" : "right", len, exp.size());
		std::vector<int> out(n + 2);
		int k = at_list_traverse(root, out.data(), n + 1);
		std::vector<int> rec(out.begin(), out.begin() + k);
		k = at_list_iterate(root, out.data(), n + 1);
		std::vector<int> got(out.begin(), out.begin() + (k < 0 ? n + 1 : k));
		if (rec != exp)
			c.fail("bintree_traverse_list over a %s-leaning spine of %d visits [%s], elements are [%s]", left ? "left" : "right",
			       len, show(rec).c_str(), show(exp).c_str());
		else if (k < 0 || got != rec)
			c.fail("list iterator over a %s-leaning spine of %d list nodes yields [%s], recursive list traversal [%s]",
			       left ? "left" : "right", len, show(got).c_str(), show(rec).c_str());
		else if (at_check_links(-1, 0, -1, 0) >= 0)
			c.fail("list iteration modified the tree");
		c.cls(left ? "left-leaning-spine" : "right-leaning-spine");
		if (len >= 2)
			c.nontrivial = true;
		at_destroy();
	}
}
