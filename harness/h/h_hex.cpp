// C18 - hex dump output parses back to the same bytes; the parser is safe on any text.
#include <cstdlib>
#include <string>

#include "../core/tape.hpp"

extern "C" {
int ah_dump(const uint8_t *data, size_t n, char **out);
void ah_begin(const char *t, size_t len);
void ah_refill(const char *t, size_t len);
int ah_next(void);
int ah_next2(void);
long ah_resume_offset(void);
}

const char *H_NAME = "hex";

namespace {
const unsigned LENS[] = { 0, 1, 2, 15, 16, 17, 31, 32, 33, 47, 48, 49, 64, 100 };

std::string printable(const std::string &s)
{
	std::string o;
	for (unsigned char ch : s) {
		if (ch == '\n')
			o += "\\n";
		else if (ch == '\t')
			o += "\\t";
		else if (ch < 0x20 || ch >= 0x7f) {
			char b[8];
			snprintf(b, sizeof b, "\\x%02x", ch);
			o += b;
		} else
			o += (char)ch;
	}
	return o;
}

// parse with convention 1 until -1; checks range, termination bound and stickiness
bool drain(Ctx &c, const std::string &text, std::vector<int> &out, bool conv2)
{
	size_t lines = 1;
	for (char ch : text)
		lines += ch == '\n';
	size_t bound = text.size() / 2 + lines + 2;
	for (size_t i = 0; i <= bound; i++) {
		int r = conv2 ? ah_next2() : ah_next();
		if (r < -1 || r > 255) {
			c.fail("hex_get_byte returned %d (not in 0..255 or -1) on \"%s\"", r, printable(text).c_str());
			return false;
		}
		if (!conv2) {
			long off = ah_resume_offset();
			if (off == -2) {
				c.fail("hex_get_byte left its resume pointer outside the string on \"%s\"", printable(text).c_str());
				return false;
			}
		}
		if (r == -1) {
			for (int k = 0; k < 10; k++) {
				int r2 = conv2 ? ah_next2() : ah_next();
				if (r2 != -1) {
					c.fail("hex_get_byte returned %d after it had returned -1 on \"%s\"", r2, printable(text).c_str());
					return false;
				}
			}
			return true;
		}
		out.push_back(r);
	}
	c.fail("hex_get_byte did not reach -1 within %zu calls on a %zu-character string \"%s\"", bound + 1, text.size(),
	       printable(text).c_str());
	return false;
}

bool dump_format_ok(const std::string &text, size_t n, std::string &why)
{
	// ([0-9a-f]{32}\n)* ([0-9a-f]{2}){1,15}\n for the remainder; nothing for n == 0
	size_t pos = 0, left = n;
	while (left > 0) {
		size_t k = left < 16 ? left : 16;
		for (size_t i = 0; i < 2 * k; i++, pos++) {
			if (pos >= text.size()) {
				why = "dump too short";
				return false;
			}
			char ch = text[pos];
			if (!((ch >= '0' && ch <= '9') || (ch >= 'a' && ch <= 'f'))) {
				why = std::string("character '") + ch + "' is not a lower-case hex digit";
				return false;
			}
		}
		if (pos >= text.size() || text[pos] != '\n') {
			why = "line does not end after " + std::to_string(k) + " pairs";
			return false;
		}
		pos++;
		left -= k;
	}
	if (pos != text.size()) {
		why = "extra output after the last line";
		return false;
	}
	return true;
}
} // namespace

void h_run(Ctx &c)
{
	Tape &t = c.t;
	long forced = c.param("kind", -1);
	switch (forced >= 0 ? (unsigned)forced : t.weighted({ 3, 4, 3 })) {
	case 0: { // round trip
		unsigned n = t.flip() ? LENS[t.choose(sizeof LENS / sizeof *LENS)] : t.choose(101);
		// "every byte array": now and then one whose length is around 2^8, 2^12 or 2^16
		// (the parser looks for a ':' in the rest of the text at every line start, so parsing a dump is quadratic:
		// the 2^16 sizes are parsed back in windows, below)
		static const unsigned BIG[] = { 255, 256, 257, 271, 272, 511, 512, 4095, 4096, 4097 };
		static const unsigned HUGE[] = { 65535, 65536, 65537, 70001 };
		bool big = c.feat(2) && !t.enumerating && t.weighted({ 8, 1 }) == 1;
		if (big) {
			n = t.weighted({ 6, 1 }) == 0 ? BIG[t.choose(sizeof BIG / sizeof *BIG)] : HUGE[t.choose(sizeof HUGE / sizeof *HUGE)];
			if (n > 65000 && t.weighted({ 80, 1 }) == 1) { // and, very rarely, megabytes ("every byte array")
				n = t.flip() ? (1u << 20) + 3 : (5u << 20) + 5;
				c.cls("dump-of-a-megabyte-or-more");
			}
			if (n > 65000)
				c.cls("dump-of-65535-bytes-or-more");
			c.cls("dump-of-256-bytes-or-more");
		}
		std::vector<uint8_t> data(n);
		unsigned mode = big ? 1 + t.choose(2) : t.choose(3);
		for (unsigned i = 0; i < n; i++)
			data[i] = mode == 0 ? (uint8_t)t.choose(256) : mode == 1 ? (uint8_t)(i * 17 + 1) : (uint8_t)(255 - i);
		char *txt = nullptr;
		int r = ah_dump(data.data(), n, &txt);
		std::string text = txt ? txt : "";
		free(txt);
		if (c.want_log)
			c.note("dump of %u bytes -> \"%s\"%s", n, printable(text.substr(0, 400)).c_str(), text.size() > 400 ? "..." : "");
		CHECK(c, r == (int)n, "hex_dump_to_file returned %d for %u bytes", r, n);
		std::string why;
		if (!c.failed && !dump_format_ok(text, n, why))
			c.fail("dump of %u bytes is not 16 lower-case pairs per line: %s: \"%s\"", n, why.c_str(),
			       printable(text.substr(0, 2000)).c_str());
		if (c.failed)
			break;
		if (n > 5000) {
			// parsing is quadratic in the text (see above): a dump this long is parsed back in three windows of
			// whole lines - the head, a generated middle, the tail - each a self-contained text (format checked above)
			unsigned lines = (n + 15) / 16, W = 32;
			unsigned starts[3] = { 0, W + (unsigned)t.choose(lines - 2 * W), lines - W };
			for (unsigned w = 0; w < 3 && !c.failed; w++) {
				size_t from = (size_t)starts[w] * 33, first = (size_t)starts[w] * 16;
				std::string win = text.substr(from, w == 2 ? std::string::npos : (size_t)W * 33);
				size_t cnt = w == 2 ? n - first : (size_t)W * 16;
				ah_begin(win.data(), win.size());
				std::vector<int> got;
				if (!drain(c, win, got, false))
					break;
				bool same = got.size() == cnt;
				for (size_t i = 0; same && i < cnt; i++)
					same = got[i] == data[first + i];
				if (!same)
					c.fail("parsing lines %u.. of the dump of %u bytes returned %zu bytes, not bytes %zu..%zu of the array (window \"%s\")",
					       starts[w], n, got.size(), first, first + cnt - 1, printable(win.substr(0, 200)).c_str());
			}
			c.cls("round-trip");
			c.cls("round-trip-more-than-one-line");
			c.nontrivial = true;
			break;
		}
		ah_begin(text.data(), text.size());
		std::vector<int> got;
		if (!drain(c, text, got, false))
			break;
		bool same = got.size() == n;
		for (unsigned i = 0; same && i < n; i++)
			same = got[i] == data[i];
		if (!same) {
			std::string g;
			for (int v : got)
				g += std::to_string(v) + " ";
			c.fail("parsing the dump of %u bytes returned %zu bytes [%s] (dump \"%s\")", n, got.size(), g.c_str(),
			       printable(text.substr(0, 2000)).c_str());
		}
		c.cls("round-trip");
		if (n > 16) {
			c.nontrivial = true;
			c.cls("round-trip-more-than-one-line");
		}
		break;
	}
	case 1: { // text from the grammar, expected bytes known by construction
		bool prefix = t.flip();
		unsigned nlines = 1 + t.choose(5);
		std::string text;
		std::vector<int> exp;
		static const char *WS[] = { " ", "  ", "\t", " \t ", "", "\r", "\v", "\f" };
		static const char *JUNK[] = { "g", "zz 12", "# comment 0xff", "-", "x12", "q: 77" };
		unsigned addr = t.choose(4) * 16;
		for (unsigned l = 0; l < nlines; l++) {
			unsigned kind = t.weighted({ 6, 1 }); // data line, blank line
			if (kind == 1) {
				text += WS[t.choose(4)];
				text += "\n";
				if (c.feat(2) && !t.enumerating && t.weighted({ 30, 1 }) == 1) {
					// "arbitrary white space": a long run of blank lines between two data lines
					static const unsigned RUN[] = { 254, 255, 256, 999, 1000, 1001, 1024, 2500 };
					unsigned run = RUN[t.choose(sizeof RUN / sizeof *RUN)];
					const char *ws = WS[t.choose(4)];
					for (unsigned k = 0; k < run; k++) {
						text += ws;
						text += "\n";
					}
					c.cls("run-of-254-or-more-blank-lines");
					if (run >= 999)
						c.cls("run-of-999-or-more-blank-lines");
				}
				continue;
			}
			if (prefix) {
				char b[24];
				unsigned style = t.choose(3);
				snprintf(b, sizeof b, style == 0 ? "%04x:" : style == 1 ? "%08X:" : "%x:", addr);
				text += b;
			}
			unsigned npairs = t.choose(20);
			for (unsigned p = 0; p < npairs; p++) {
				text += WS[t.choose(prefix || p > 0 ? 8 : 5)]; // (no leading \r etc. needed; all are isspace)
				unsigned v = t.choose(256);
				char b[8];
				unsigned style = t.choose(4);
				snprintf(b, sizeof b, style == 0 ? "%02x" : style == 1 ? "%02X" : style == 2 ? "0x%02x" : "0x%02X", v);
				// a pair directly after another pair without blank is fine ("aabb"), but "0x" glued to a
				// previous pair is too ("aa0xbb"): the parser skips 0x wherever a pair may start
				text += b;
				exp.push_back((int)v);
				addr++;
			}
			text += WS[t.choose(5)];
			bool junk = false;
			if (t.weighted({ 4, 1 }) == 1) { // trailing junk: skipped up to the end of the line
				const char *j = JUNK[t.choose(prefix ? 5 : 6)];
				// (the junk with a colon is only legal when no line carries an address prefix... and even
				// then it would be taken as one: exclude it by construction)
				if (strchr(j, ':'))
					j = "g";
				if (npairs && text.back() != ' ' && text.back() != '\t' && j[0] == 'x')
					j = "g"; // "..30x12" could be read as pair "30"? no: keep it unambiguous anyway
				text += " ";
				text += j;
				junk = true;
				c.cls("trailing-junk");
			}
			(void)junk;
			if (l + 1 < nlines || t.flip())
				text += "\n";
		}
		if (c.want_log)
			c.note("grammar text (%s address prefix): \"%s\"%s", prefix ? "with" : "without", printable(text.substr(0, 600)).c_str(), text.size() > 600 ? "..." : "");
		// now and then the text arrives in storage that has just been parsed with other contents (a refilled line
		// buffer): a colon-free text of at least the same length is parsed there first
		if (c.feat(2) && !t.enumerating && t.weighted({ 4, 1 }) == 1) {
			std::string warm;
			while (warm.size() < text.size() + 3)
				warm += "a5 ";
			ah_begin(warm.data(), warm.size());
			std::vector<int> w;
			if (!drain(c, warm, w, false))
				break;
			CHECK(c, w.size() == warm.size() / 3, "a text of %zu times \"a5 \" parsed as %zu bytes", warm.size() / 3, w.size());
			ah_refill(text.data(), text.size());
			c.cls("text-in-storage-parsed-before-with-other-contents");
		} else
			ah_begin(text.data(), text.size());
		std::vector<int> got;
		if (!drain(c, text, got, false))
			break;
		if (got != exp) {
			std::string g, e;
			for (int v : got)
				g += std::to_string(v) + " ";
			for (int v : exp)
				e += std::to_string(v) + " ";
			c.fail("text \"%s\"%s parsed as [%s], constructed from [%s]", printable(text.substr(0, 600)).c_str(), text.size() > 600 ? "... (long run of blank lines elided)" : "", g.c_str(), e.c_str());
		}
		c.cls(prefix ? "grammar-with-prefix" : "grammar-without-prefix");
		if (nlines >= 2 && prefix) {
			c.nontrivial = true;
			c.cls("grammar-multi-line-with-prefix");
		}
		break;
	}
	case 2: { // arbitrary string: safety only, both calling conventions
		unsigned n = t.enumerating ? (unsigned)c.param("len", 4) : t.choose(61);
		std::string text;
		static const char ALPHA[] = "0123456789abcdefABCDEFxX:  \t\n\n\r0x";
		for (unsigned i = 0; i < n; i++) {
			if (t.enumerating) {
				static const char E[] = "0xa:\n gF";
				text += E[t.choose(8)];
			} else if (t.weighted({ 5, 1 }) == 0)
				text += ALPHA[t.choose(sizeof ALPHA - 1)];
			else
				text += (char)(1 + t.choose(255)); // any byte but NUL
		}
		c.note("arbitrary string \"%s\"", printable(text).c_str());
		std::vector<int> got;
		ah_begin(text.data(), text.size());
		if (!drain(c, text, got, false))
			break;
		ah_begin(text.data(), text.size());
		got.clear();
		drain(c, text, got, true);
		c.cls("arbitrary-string");
		if (n >= 2)
			c.nontrivial = true;
		break;
	}
	}
}
