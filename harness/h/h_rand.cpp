// C17 - rand31_r is exactly the Park-Miller minimal standard generator.
// Oracle: 16807*s mod (2^31-1) in 64-bit arithmetic.
#include "../core/tape.hpp"

extern "C" uint32_t ar_rand31_r(uint32_t *s);

const char *H_NAME = "rand";
static const uint32_t M = 0x7fffffffu;

static const char *check(uint32_t s, char *buf, size_t n)
{
	uint32_t st = s;
	uint32_t r = ar_rand31_r(&st);
	uint32_t ref = (uint32_t)((16807ull * s) % M);
	if (r != ref || st != ref) {
		snprintf(buf, n, "rand31_r(state %u) returned %u and left state %u; 16807*s mod (2^31-1) = %u", s, r, st, ref);
		return buf;
	}
	if (r < 1 || r > M - 1) {
		snprintf(buf, n, "rand31_r(state %u) = %u leaves 1..2^31-2", s, r);
		return buf;
	}
	return nullptr;
}

void h_run(Ctx &c)
{
	uint32_t s;
	switch (c.t.weighted({ 4, 1, 1 })) {
	default:
	case 0:
		s = 1 + c.t.choose(M - 1);
		break;
	case 1: // near the ends and around multiples of 2^16 (the split point of the multiply)
		s = 1 + c.t.choose(70000);
		break;
	case 2:
		s = M - 1 - c.t.choose(70000);
		break;
	}
	c.note("state %u", s);
	c.nontrivial = true;
	char buf[256];
	if (const char *m = check(s, buf, sizeof buf))
		c.fail("%s", m);
}

void h_custom(long worker, long workers, long seed, std::map<std::string, std::string> &params, CustomOut &o)
{
	char buf[256];
	bool period = params.count("period") && params["period"] != "0";
	uint64_t total = (uint64_t)M - 1; // states 1..2^31-2
	uint64_t lo = 1 + total * worker / workers, hi = 1 + total * (worker + 1) / workers;
	if (period && worker == workers - 1) {
		// the single trajectory from 1 must return to 1 after exactly 2^31-2 steps
		uint32_t s = 1;
		uint64_t steps = 0;
		do {
			ar_rand31_r(&s);
			steps++;
		} while (s != 1 && s != 0 && steps <= total);
		o.classes["period-walk steps"] = steps;
		o.evaluations = steps;
		o.nontrivial = o.distinct = 0; // same states as the exhaustive stage: not counted twice
		snprintf(buf, sizeof buf, "trajectory from state 1 returned to 1 after %llu steps", (unsigned long long)steps);
		o.samples.push_back(buf);
		if (s != 1 || steps != total) {
			o.failed = true;
			snprintf(buf, sizeof buf, "trajectory from state 1 reached %u after %llu steps; full period is %llu",
				 s, (unsigned long long)steps, (unsigned long long)total);
			o.failmsg = buf;
			o.fail_tape = { 0, 0 }; // no single-state reproduction; the exhaustive stage pins the state
		}
		o.exhaustive = !o.failed;
		return;
	}
	if (period) {
		o.exhaustive = true;
		return;
	}
	uint32_t dummy[2], *cur = engine_custom_case ? engine_custom_case(2, nullptr) : dummy; // h_run: weighted -> 0, then s-1
	cur[0] = 0;
	for (uint64_t s = lo; s < hi; s++) {
		cur[1] = (uint32_t)(s - 1);
		if (const char *m = check((uint32_t)s, buf, sizeof buf)) {
			o.failed = true;
			o.failmsg = m;
			// weighted {4,1,1}: raw 0 -> index 0; then choose(M-1) = s-1
			o.fail_tape = { 0, (uint32_t)(s - 1) };
			break;
		}
	}
	o.evaluations = hi - lo;
	o.nontrivial = o.distinct = hi - lo;
	o.classes["states checked against 64-bit reference"] = hi - lo;
	snprintf(buf, sizeof buf, "all states in [%llu, %llu]", (unsigned long long)lo, (unsigned long long)hi - 1);
	o.samples.push_back(buf);
	o.exhaustive = !o.failed;
}
