// C15 - console line editing, tokenising and dispatch are exact and memory-safe.
// Oracle: a line-editing model (append / backspace / Ctrl-C / newline / buffer fill) applied to every
// stream, and for each completed line either the exact reference tokenizer (when the line is inside the
// fragment the statement pins down) or the tier-1 safety/sanity clauses.
#include <algorithm>
#include <string>

#include "../core/tape.hpp"

extern "C" {
void ac_reset(void);
int ac_register(const char *name);
void ac_process(int ch);
void ac_putchar(int ch);
uint32_t ac_sched(uint32_t t);
int ac_ring_empty(void);
void ac_eval_begin(const char *s);
int ac_eval_step(void);
size_t ac_output(char *buf, size_t max);
int hc_capture(int cmd, int argc, const int *off, const int *term, const char (*arg)[81]);
void hc_complete(int cmd);
}

const char *H_NAME = "console";

namespace {
struct Capture {
	int cmd, argc;
	int off[4], term[4];
	std::string arg[4];
};
struct Expect {
	bool exact;       // inside the fragment the statement pins down
	bool dispatch;    // (exact only) a registered command is expected
	int cmd;
	std::vector<std::string> tok;
	std::string line;
};

struct State {
	Ctx *c;
	std::vector<std::string> names; // successfully registered, index = adapter command index
	std::vector<int> yields;
	std::vector<Capture> caps;       // since the last sync point
	unsigned long total_caps = 0, total_lines = 0, total_done = 0;
	int last_cmd = -1;
	// editing model
	std::string buf;
	bool desync = false;
	std::vector<Expect> done; // lines completed since the last sync point
};
State *S;

std::string vis(const std::string &s)
{
	std::string o;
	for (unsigned char ch : s) {
		if (ch == '\n') o += "<NL>";
		else if (ch == '\b') o += "<BS>";
		else if (ch == 3) o += "<^C>";
		else if (ch == '\t') o += "<TAB>";
		else if (ch < 0x20 || ch >= 0x7f) {
			char b[8];
			snprintf(b, sizeof b, "<%02x>", ch);
			o += b;
		} else o += (char)ch;
	}
	return o;
}

bool isws(char ch) { return ch == ' ' || ch == '\t'; }
bool isq(char ch) { return ch == '\'' || ch == '"'; }

// Is this (edited, completed) line inside the exact fragment?  If so, its tokens.
bool exact_tokens(const std::string &L, std::vector<std::string> &tok)
{
	tok.clear();
	if (L.empty())
		return true;
	if (isws(L[0]) || isq(L[0]))
		return false;
	for (unsigned char ch : L)
		if (ch < 0x20 && ch != '\t')
			return false;
	size_t i = 0, n = L.size();
	while (i < n) {
		if (tok.size() == 4)
			return false; // a fifth token: the table has four slots, the statement does not say what happens
		std::string t;
		if (isq(L[i])) {
			char q = L[i];
			size_t j = L.find(q, i + 1);
			if (j == std::string::npos || j == i + 1)
				return false; // unterminated or empty quoted string
			if (isq(L[i + 1]))
				return false; // opening quote directly followed by the other quote character
			t = L.substr(i + 1, j - i - 1);
			i = j + 1;
			if (i < n && !isws(L[i]))
				return false; // closing quote directly followed by a non-space
		} else {
			size_t j = i;
			while (j < n && !isws(L[j])) {
				if (isq(L[j]))
					return false; // quote characters inside a bare word: not pinned down
				j++;
			}
			t = L.substr(i, j - i);
			i = j;
		}
		tok.push_back(t);
		while (i < n && isws(L[i]))
			i++;
	}
	return true;
}

void complete_line(State &s)
{
	Expect e;
	e.line = s.buf;
	e.exact = !s.desync && exact_tokens(s.buf, e.tok);
	e.dispatch = false;
	e.cmd = -1;
	if (e.exact && !e.tok.empty()) {
		for (size_t k = 0; k < s.names.size(); k++)
			if (s.names[k] == e.tok[0]) {
				e.dispatch = true;
				e.cmd = (int)k;
			}
	}
	s.done.push_back(e);
	s.total_lines++;
	s.buf.clear();
}

// the editing model; returns true if this character completed a line
bool model_char(State &s, unsigned char ch)
{
	if (ch == '\n' || s.buf.size() >= 79) {
		bool fill = ch != '\n';
		complete_line(s);
		if (fill) {
			// which character is lost when the buffer fills is not pinned down: from here on only
			// the tier-1 clauses are asserted (the model follows the code: the arriving one is dropped)
			s.desync = true;
			s.c->cls("line-completed-by-buffer-fill");
		}
		return true;
	}
	if (ch == '\b') {
		if (!s.buf.empty())
			s.buf.pop_back();
		return false;
	}
	if (ch == 3) {
		s.buf.clear();
		return false;
	}
	s.buf.push_back((char)ch);
	return false;
}

bool sane(Ctx &c, State &s, const Capture &k, const char *ctx)
{
	CHECK(c, k.cmd >= 0 && k.cmd < (int)s.names.size(), "%s: a command that is not registered was dispatched", ctx);
	if (c.failed)
		return false;
	CHECK(c, k.argc >= 1 && k.argc <= 4, "%s: command '%s' dispatched with argc=%d", ctx, s.names[k.cmd].c_str(), k.argc);
	for (int i = 0; i < 4 && !c.failed; i++) {
		CHECK(c, k.off[i] >= 0, "%s: argv[%d] of command '%s' points outside the line buffer", ctx, i, s.names[k.cmd].c_str());
		CHECK(c, k.off[i] < 0 || k.term[i], "%s: argv[%d] of command '%s' is not NUL-terminated inside the line buffer", ctx, i,
		      s.names[k.cmd].c_str());
	}
	CHECK(c, k.arg[0] == s.names[k.cmd], "%s: command '%s' was dispatched for argv[0]=\"%s\" (commands are found by exact name)", ctx,
	      s.names[k.cmd].c_str(), vis(k.arg[0]).c_str());
	return !c.failed;
}

// compare what was captured since the last sync point with what the model says completed
void sync(Ctx &c, State &s, const char *ctx)
{
	if (c.failed)
		return;
	std::vector<Capture> caps;
	caps.swap(s.caps);
	std::vector<Expect> done;
	done.swap(s.done);
	for (auto &k : caps)
		if (!sane(c, s, k, ctx))
			return;
	// a dispatched command runs to completion (it is resumed after each of its yields) before the console goes idle
	if (s.total_done != s.total_caps) {
		c.fail("%s: %lu commands were dispatched but only %lu ran to completion by the time the console went idle (the last one dispatched, '%s', yields %d times%s)",
		       ctx, s.total_caps, s.total_done, s.last_cmd >= 0 && s.last_cmd < (int)s.names.size() ? s.names[s.last_cmd].c_str() : "?",
		       s.last_cmd >= 0 && s.last_cmd < (int)s.yields.size() ? s.yields[s.last_cmd] & 15 : 0,
		       s.last_cmd >= 0 && s.last_cmd < (int)s.yields.size() && (s.yields[s.last_cmd] & 16) ? " and stores state in the scratch area" : "");
		return;
	}
	if (done.empty() && !caps.empty() && s.buf.size() == 79) {
		// "the buffer filling" completes a line: an implementation may dispatch as soon as the 79th character is stored
		// instead of when the next one arrives - both read the statement correctly. Accept it as the fill completion.
		complete_line(s);
		s.desync = true;
		s.c->cls("line-completed-by-buffer-fill");
		done.swap(s.done);
	}
	if (done.empty()) {
		CHECK(c, caps.empty(), "%s: command '%s' was dispatched although no line was completed (buffer \"%s\")", ctx,
		      caps.empty() ? "" : s.names[caps[0].cmd].c_str(), vis(s.buf).c_str());
		return;
	}
	size_t ci = 0;
	bool all_exact = true;
	for (auto &e : done)
		all_exact = all_exact && e.exact;
	if (!all_exact) {
		CHECK(c, caps.size() <= done.size(), "%s: %zu registered commands dispatched for %zu completed lines", ctx, caps.size(), done.size());
		c.cls("tier1-only-line");
		return;
	}
	for (auto &e : done) {
		if (c.failed)
			return;
		if (!e.dispatch)
			continue;
		if (ci >= caps.size()) {
			c.fail("%s: line \"%s\" names registered command '%s' but it was not dispatched", ctx, vis(e.line).c_str(), e.tok[0].c_str());
			return;
		}
		const Capture &k = caps[ci++];
		if (k.cmd != e.cmd) {
			c.fail("%s: line \"%s\" dispatched '%s', expected '%s'", ctx, vis(e.line).c_str(), s.names[k.cmd].c_str(), e.tok[0].c_str());
			return;
		}
		if (k.argc != (int)e.tok.size()) {
			c.fail("%s: line \"%s\" dispatched '%s' with argc=%d, the line has %zu tokens", ctx, vis(e.line).c_str(), e.tok[0].c_str(),
			       k.argc, e.tok.size());
			return;
		}
		for (int i = 0; i < 4; i++) {
			std::string exp = i < (int)e.tok.size() ? e.tok[i] : "";
			if (k.arg[i] != exp) {
				c.fail("%s: line \"%s\": argv[%d] is \"%s\", expected \"%s\"", ctx, vis(e.line).c_str(), i, vis(k.arg[i]).c_str(),
				       vis(exp).c_str());
				return;
			}
		}
		c.cls("exact-dispatch-checked");
		if (e.tok.size() == 4)
			c.cls("exact-four-tokens");
	}
	if (ci < caps.size())
		c.fail("%s: registered command '%s' was dispatched (argv[0]=\"%s\") but no completed line names it (last line \"%s\")", ctx,
		       s.names[caps[ci].cmd].c_str(), vis(caps[ci].arg[0]).c_str(), vis(done.back().line).c_str());
}

// ------------------------------------------------------------------ generation
const char WORDCH[] = "abcdefghijklmnopqrstuvwxyz0123456789-_=+./:;,<>?!@#$%^&*()[]{}|~ABCXYZ";

std::string gen_name(Tape &t, const std::vector<std::string> &have)
{
	// short names over a tiny alphabet so that prefixes of one another are common
	static const char A[] = "abeh";
	for (int tries = 0; tries < 8; tries++) {
		std::string n;
		if (!have.empty() && t.flip()) {
			n = have[t.choose(have.size())];
			if (t.flip() || n.size() < 2)
				n += A[t.choose(4)];
			else
				n.pop_back();
		} else {
			unsigned len = 1 + t.choose(5);
			for (unsigned i = 0; i < len; i++)
				n += A[t.choose(4)];
		}
		if (n.empty() || n == "echo" || n == "help")
			continue;
		if (std::find(have.begin(), have.end(), n) == have.end())
			return n;
	}
	return "cmd" + std::to_string(have.size());
}

std::string gen_word(Tape &t, unsigned maxlen)
{
	unsigned len = 1 + t.choose(maxlen);
	std::string w;
	for (unsigned i = 0; i < len; i++)
		w += WORDCH[t.choose(sizeof WORDCH - 1)];
	return w;
}

// one structured line (without the newline), inside the exact fragment unless it grows beyond 79 or
// gets a fifth token
std::string gen_line(Tape &t, State &s, Ctx &c, bool allow_help)
{
	std::string L;
	// command token
	switch (t.weighted({ 6, 1, 1, 2 })) {
	default:
	case 0:
		if (!s.names.empty()) {
			L = s.names[t.choose(s.names.size())];
			break;
		}
		/* fallthrough */
	case 1:
		L = (allow_help && t.flip()) ? "help" : "echo"; // help keeps static state: only where it always runs to completion
		break;
	case 2:
		L = gen_word(t, 6);
		break;
	case 3: // a near miss of a registered name: proper prefix or extension
		if (!s.names.empty()) {
			L = s.names[t.choose(s.names.size())];
			if (t.flip() && L.size() > 1)
				L.pop_back();
			else
				L += "abeh"[t.choose(4)];
		} else
			L = "ech";
		break;
	}
	unsigned nargs = t.weighted({ 2, 3, 3, 4, 1 }); // 0..3 arguments, or 4 (= five tokens, tier 1)
	bool want_long = t.weighted({ 5, 1 }) == 1;
	for (unsigned a = 0; a < nargs; a++) {
		L += t.weighted({ 5, 1, 1 }) == 0 ? " " : t.flip() ? "  " : "\t";
		unsigned maxlen = (want_long && a + 1 == nargs) ? 70 : 8;
		switch (t.weighted({ 4, 2, 2 })) {
		default:
		case 0:
			L += gen_word(t, maxlen);
			break;
		case 1:
		case 2: {
			char q = t.flip() ? '\'' : '"', o = q == '\'' ? '"' : '\'';
			std::string body = gen_word(t, 4);
			unsigned parts = t.choose(3);
			for (unsigned p = 0; p < parts; p++) {
				body += t.flip() ? " " : (t.flip() ? "\t" : std::string(1, o));
				body += gen_word(t, maxlen > 8 ? 30 : 4);
			}
			L += q + body + q;
			c.cls("line-with-quoted-argument");
			break;
		}
		}
	}
	if (t.weighted({ 3, 1 }) == 1)
		L += t.flip() ? " " : " \t ";
	return L;
}

// type a line with editing keystrokes whose net effect is known (none)
std::string with_noise(Tape &t, const std::string &L, Ctx &c)
{
	std::string o;
	if (t.weighted({ 4, 1 }) == 1) { // garbage abandoned with Ctrl-C
		o += gen_word(t, 10);
		if (t.flip())
			o += " 'x";
		o += (char)3;
		c.cls("edit-ctrl-c");
	}
	if (t.weighted({ 5, 1 }) == 1) { // backspace on an empty line is ignored
		o += '\b';
		c.cls("edit-backspace-on-empty-line");
	}
	unsigned nins = t.weighted({ 3, 2, 1 });
	std::vector<size_t> at;
	for (unsigned i = 0; i < nins; i++)
		at.push_back(t.choose(L.size() + 1));
	std::sort(at.begin(), at.end());
	size_t p = 0;
	for (size_t a : at) {
		o += L.substr(p, a - p);
		p = a;
		std::string junk = gen_word(t, 3);
		if (t.flip())
			junk += t.flip() ? " " : "'";
		if (a + junk.size() < 79) { // must not trigger the buffer-fill completion
			o += junk;
			o += std::string(junk.size(), '\b');
			c.cls("edit-backspace");
		}
	}
	o += L.substr(p);
	return o;
}

std::string gen_raw(Tape &t)
{
	static const char RAW[] = "ab e\t'\"\b\x03\n\n  xyz09'\"";
	unsigned n = 1 + t.choose(40);
	std::string o;
	for (unsigned i = 0; i < n; i++)
		o += t.weighted({ 3, 1 }) == 0 ? RAW[t.choose(sizeof RAW - 1)] : (char)(0x20 + t.choose(0x5f));
	return o;
}

void drain_scheduler(Ctx &c, uint32_t &now)
{
	for (int i = 0; i < 4000; i++) {
		uint32_t r = ac_sched(now);
		bool idle = r != now && ac_ring_empty();
		now++;
		if (idle)
			return;
	}
	c.fail("the console fibre did not go idle within 4000 scheduler passes");
}

void register_some(Tape &t, State &s, Ctx &c, unsigned n)
{
	for (unsigned i = 0; i < n; i++) {
		std::string nm = gen_name(t, s.names);
		int r = ac_register(nm.c_str());
		if (r == 0) {
			s.names.push_back(nm);
			int code = t.enumerating ? 0 : (int)t.weighted({ 5, 1, 1, 1 });
			// console.h: "Scratch buffer used by commands to store state" (after parsing their arguments):
			// some commands overwrite all or part of the 80-byte scratch area with non-zero bytes
			if (!t.enumerating && c.feat(2))
				switch (t.weighted({ 3, 1, 1 })) {
				case 1:
					code |= 1 << 4 | 0 << 8 | 80 << 16;
					c.cls("command-stores-state-in-scratch");
					break;
				case 2: {
					unsigned a = t.choose(80), n = 1 + t.choose(80 - a);
					code |= 1 << 4 | a << 8 | n << 16;
					c.cls("command-stores-state-in-scratch");
					break;
				}
				default:
					break;
				}
			s.yields.push_back(code);
		} else
			c.fail("console_register(\"%s\") failed with %zu commands registered (capacity is 29)", nm.c_str(), s.names.size());
	}
}
} // namespace

extern "C" int hc_capture(int cmd, int argc, const int *off, const int *term, const char (*arg)[81])
{
	State &s = *S;
	Capture k;
	k.cmd = cmd;
	k.argc = argc;
	for (int i = 0; i < 4; i++) {
		k.off[i] = off[i];
		k.term[i] = term[i];
		k.arg[i] = arg[i];
	}
	s.caps.push_back(k);
	s.total_caps++;
	s.last_cmd = cmd;
	return cmd >= 0 && cmd < (int)s.yields.size() ? s.yields[cmd] : 0;
}

extern "C" void hc_complete(int cmd)
{
	(void)cmd;
	S->total_done++;
}

void h_run(Ctx &c)
{
	Tape &t = c.t;
	State s;
	S = &s;
	s.c = &c;
	ac_reset();
	long forced = c.param("kind", -1);
	// 0 console_process, 1 console_putchar + scheduler, 2 console_eval, 3 registration up to/beyond capacity, 4 reduced-alphabet streams
	unsigned kind = forced >= 0 ? (unsigned)forced : t.weighted({ 4, 3, 2, 1 });
	uint32_t now = 1000;
	if (kind == 4) {
		// every stream over a reduced alphabet (enum stage); one registered command 'a'
		static const char E[] = "a '\"\b\x03\n";
		ac_register("a");
		s.names.push_back("a");
		s.yields.push_back(0);
		long n = c.param("len", 6);
		std::string stream;
		for (long i = 0; i < n; i++)
			stream += E[t.choose(7)];
		c.note("stream \"%s\" via console_process", vis(stream).c_str());
		for (unsigned char ch : stream) {
			model_char(s, ch);
			ac_process(ch);
			sync(c, s, "console_process");
			if (c.failed)
				break;
		}
		c.nontrivial = stream.find('\n') != std::string::npos;
		S = nullptr;
		return;
	}
	if (kind == 3) {
		// register until beyond the capacity of the table, in random name order
		unsigned want = 25 + t.choose(11); // 25..35
		std::vector<std::string> all, rejected;
		for (unsigned i = 0; i < want && !c.failed; i++) {
			std::vector<std::string> pool = s.names;
			pool.insert(pool.end(), rejected.begin(), rejected.end());
			std::string nm = gen_name(t, pool);
			int r = ac_register(nm.c_str());
			bool should = s.names.size() < 29;
			CHECK(c, (r == 0) == should, "console_register(\"%s\") returned %d with %zu commands already registered (the table holds 29)",
			      nm.c_str(), r, s.names.size());
			if (r == 0) {
				s.names.push_back(nm);
				s.yields.push_back(0);
			} else {
				rejected.push_back(nm);
				// keep adapter indices aligned: a rejected command still occupies an adapter slot
				s.names.push_back("\x01rejected:" + nm);
				s.yields.push_back(0);
			}
		}
		c.note("registered %zu names, %zu rejected", s.names.size() - rejected.size(), rejected.size());
		if (!rejected.empty()) {
			c.cls("registration-reached-full-table");
			c.nontrivial = true;
		}
		// every accepted command still dispatches, by exact name, with its argument; rejected ones do not
		for (size_t k = 0; k < s.names.size() && !c.failed; k++) {
			bool rej = s.names[k][0] == '\x01';
			std::string nm = rej ? s.names[k].substr(10) : s.names[k];
			std::string line = nm + " arg" + std::to_string(k) + "\n";
			for (unsigned char ch : line) {
				model_char(s, ch);
				ac_process(ch);
			}
			if (rej) {
				// the model would not find it (its entry is the marker), so no dispatch is expected
			}
			sync(c, s, "after registration");
		}
		// the built-ins survive
		char out[4096];
		ac_output(out, sizeof out);
		for (unsigned char ch : std::string("echo still here\n")) {
			model_char(s, ch);
			ac_process(ch);
		}
		sync(c, s, "echo after registration");
		ac_output(out, sizeof out);
		CHECK(c, strstr(out, " still here\n") != nullptr, "built-in echo no longer works after %zu registrations: output \"%s\"", s.names.size(),
		      vis(out).c_str());
		S = nullptr;
		return;
	}
	register_some(t, s, c, t.choose(8));
	if (c.want_log) {
		std::string ns;
		for (auto &n : s.names)
			ns += n + " ";
		c.note("registered: %s", ns.c_str());
	}
	unsigned nseg = 1 + t.choose(6);
	bool edit = false, quoted = false, longline = false;
	if (kind == 2) {
		// console_eval: exact lines only, injected as one string, executed once
		std::string str;
		for (unsigned i = 0; i < nseg; i++) {
			std::string L = gen_line(t, s, c, false);
			if (L.size() > 79)
				L.resize(79);
			std::vector<std::string> tk;
			if (!exact_tokens(L, tk))
				L = s.names.empty() ? "echo x" : s.names[0] + " x";
			str += t.flip() ? with_noise(t, L, c) : L;
			str += '\n';
		}
		c.note("console_eval(\"%s\")", vis(str).c_str());
		for (unsigned char ch : str)
			model_char(s, ch);
		ac_eval_begin(str.c_str());
		int rc = 0, steps = 0;
		long bound = 100 + 6 * (long)str.size();
		for (; steps < bound && !c.failed; steps++) {
			rc = ac_eval_step();
			if (rc >= 2)
				break;
			// let the console fibre run 1-3 passes (not until idle: with yielding commands the ring then
			// stays partly full, so the injection meets a full ring at arbitrary positions), or drain
			unsigned passes = t.choose(5);
			if (passes == 4)
				drain_scheduler(c, now);
			else
				for (unsigned k = 0; k <= passes; k++)
					ac_sched(now++);
		}
		CHECK(c, rc == 2, "console_eval of a %zu-character string did not complete within %ld invocations (last result %d); %lu commands dispatched so far for %lu lines",
		      str.size(), bound, rc, s.total_caps, s.total_lines);
		if (!c.failed)
			drain_scheduler(c, now);
		sync(c, s, "console_eval");
		c.cls("console_eval");
		c.nontrivial = str.size() > 15; // longer than the ring: the injection has to yield
		S = nullptr;
		return;
	}
	const char *mech = kind == 0 ? "console_process" : "console_putchar";
	for (unsigned i = 0; i < nseg && !c.failed; i++) {
		std::string seg;
		if (c.feat(2) && t.weighted({ 12, 1 }) == 1) {
			// a line that fills the buffer exactly (79 characters), then one more character of any kind: by the time
			// that character has been consumed the 79-character line has been dispatched, whichever character it is
			std::string L = s.names.empty() ? std::string("echo") : s.names[t.choose(s.names.size())];
			L += ' ';
			L += std::string(79 - L.size(), 'w');
			static const char FOLLOW[] = { '\b', 3, 'z', '\n', ' ', '\b' };
			seg = L + FOLLOW[t.choose(sizeof FOLLOW)] + "\n";
			longline = true;
			c.cls("buffer-filled-exactly-then-one-more-character");
		} else if (t.weighted({ 4, 1 }) == 0) {
			std::string L = gen_line(t, s, c, kind == 0);
			if (L.size() >= 70)
				longline = true;
			seg = t.flip() ? with_noise(t, L, c) : L;
			seg += '\n';
		} else {
			seg = gen_raw(t);
			c.cls("raw-segment");
		}
		c.note("%s: \"%s\"", mech, vis(seg).c_str());
		if (kind == 0) {
			for (unsigned char ch : seg) {
				model_char(s, ch);
				ac_process(ch);
				sync(c, s, mech);
				if (c.failed)
					break;
			}
		} else {
			size_t p = 0;
			while (p < seg.size() && !c.failed) {
				unsigned chunk = 1 + t.choose(15);
				unsigned sent = 0;
				while (sent < chunk && p < seg.size()) {
					unsigned char ch = seg[p++];
					bool completed = model_char(s, ch);
					ac_putchar(ch);
					sent++;
					if (completed)
						break; // at most one completed line per sync point
				}
				drain_scheduler(c, now);
				sync(c, s, mech);
			}
		}
	}
	for (auto cl : c.classes) {
		if (!strcmp(cl, "edit-backspace") || !strcmp(cl, "edit-ctrl-c"))
			edit = true;
		if (!strcmp(cl, "line-with-quoted-argument"))
			quoted = true;
	}
	c.nontrivial = edit || quoted || longline;
	c.cls(kind == 0 ? "via-console_process" : "via-console_putchar");
	S = nullptr;
}
