// C13 (round trips, consistent sizes) and C14 (untrusted bytes) over wavheader.c.
// param oracle=13|14 selects which property's clauses are asserted (both see the same inputs).
#include <cstdlib>
#include <string>

#include "../core/tape.hpp"

extern "C" {
unsigned aw_sizeof(void);
void aw_init(uint8_t *img, int sfreq, int ch, int fmt);
void aw_set_frames(uint8_t *img, unsigned frames);
int aw_validate(const uint8_t *img);
int aw_get_format(const uint8_t *img);
int aw_tostring(const uint8_t *img);
int aw_encode(const uint8_t *img, uint8_t *out, unsigned outsz);
int aw_decode(const uint8_t *in, unsigned n, uint8_t *img_out);
uint32_t aw_field(const uint8_t *img, int which);
int aw_min_size(void);
}

const char *H_NAME = "wav";

namespace {
enum { F_CHUNK_SIZE, F_DATA_SIZE, F_BLOCK_ALIGN, F_BYTE_RATE, F_BITS, F_CHANNELS, F_RATE, F_FMT_SIZE, F_AUDIO_FORMAT,
       F_SAMPLE_LENGTH, F_FACT_SIZE, F_CB_SIZE };
typedef std::vector<uint8_t> Bytes;

std::string hex(const Bytes &b, size_t lim = 96)
{
	std::string o;
	char t[4];
	for (size_t i = 0; i < b.size() && i < lim; i++) {
		snprintf(t, sizeof t, "%02x", b[i]);
		o += t;
		if (i % 4 == 3)
			o += ' ';
	}
	if (b.size() > lim)
		o += "...";
	return o;
}

// ---------------------------------------------------------------------------------------------
// Independent reference for "how many bytes does this header occupy": 64-bit cursor, and the
// decoder's documented rule that an item which does not fit entirely reads as zero.
struct Ref {
	uint64_t need = 0;        // bytes the header occupies
	bool magic_ok = false;    // RIFF / WAVE present and chunk size plausible (64-bit arithmetic)
	uint64_t skip_at = 0, skip_len = 0; // ignored extension bytes (normalised to zero on re-encode)
	bool has_fact = false, has_ext = false;
};
Ref reference(const Bytes &b)
{
	uint64_t c = 0, n = b.size();
	auto fits = [&](unsigned len) {
		uint64_t s = c;
		c += len;
		return c <= n ? (int64_t)s : -1;
	};
	auto u32 = [&]() -> uint32_t {
		int64_t s = fits(4);
		return s < 0 ? 0 : b[s] | b[s + 1] << 8 | b[s + 2] << 16 | (uint32_t)b[s + 3] << 24;
	};
	auto u16 = [&]() -> uint32_t {
		int64_t s = fits(2);
		return s < 0 ? 0 : b[s] | b[s + 1] << 8;
	};
	auto id = [&](char out[4]) {
		int64_t s = fits(4);
		for (int i = 0; i < 4; i++)
			out[i] = s < 0 ? 0 : (char)b[s + i];
	};
	Ref r;
	char cid[4], form[4], fid[4], did[4];
	id(cid);
	uint32_t chunk_size = u32();
	id(form);
	id(fid);
	uint32_t fmt_size = u32();
	u16(); u16(); u32(); u32(); u16(); u16();
	if (fmt_size >= 18) {
		uint32_t cb = u16();
		if (cb == 22) {
			u16(); u32();
			fits(16);
			r.has_ext = true;
		} else {
			r.skip_at = c;
			r.skip_len = (uint64_t)fmt_size - 18;
			c += r.skip_len;
		}
	}
	id(did);
	uint64_t fact_size = 0;
	if (!memcmp(did, "fact", 4)) {
		r.has_fact = true;
		fact_size = u32();
		u32();
		id(did);
	}
	u32();
	r.need = c;
	r.magic_ok = !memcmp(cid, "RIFF", 4) && !memcmp(form, "WAVE", 4) && (uint64_t)chunk_size >= 12ull + fmt_size + fact_size;
	return r;
}

struct Out {
	Bytes img;
	int r;
};

// C14 clause: what decode may return for this input
void check_decode_result(Ctx &c, const Bytes &in, int r, const Ref &ref, const char *what)
{
	uint64_t n = in.size();
	if (r < 0)
		return; // a negative error is always acceptable
	if ((uint64_t)r > n) {
		CHECK(c, ref.need > n, "%s: decode of %zu bytes returned %d (> supplied) although the header is complete in %llu bytes: %s",
		      what, in.size(), r, (unsigned long long)ref.need, hex(in).c_str());
		return;
	}
	// 0 <= r <= n: success, must be the exact header length
	CHECK(c, r >= aw_min_size(), "%s: decode of %zu bytes returned %d, which is neither negative, nor larger than the supplied length, nor >= RF_WAVHEADER_MIN_SIZE: %s",
	      what, in.size(), r, hex(in).c_str());
	if (c.failed)
		return;
	CHECK(c, (uint64_t)r == ref.need, "%s: decode of %zu bytes returned %d but the header occupies %llu bytes%s: %s", what, in.size(),
	      r, (unsigned long long)ref.need, ref.need > n ? " (incomplete: success is not allowed)" : "", hex(in).c_str());
}

void run_bytes(Ctx &c, const Bytes &in, int oracle)
{
	unsigned S = aw_sizeof();
	Bytes img(S);
	int r = aw_decode(in.data(), (unsigned)in.size(), img.data());
	Ref ref = reference(in);
	c.note("decode(%zu bytes) = %d; reference: header occupies %llu bytes, magic %s: %s", in.size(), r, (unsigned long long)ref.need,
	       ref.magic_ok ? "ok" : "bad", hex(in).c_str());
	if (in.size() >= 44 && !memcmp(in.data(), "RIFF", 4) && !memcmp(in.data() + 8, "WAVE", 4)) {
		c.cls("length>=44-and-magic-present");
		if (oracle == 14)
			c.nontrivial = true;
	}
	bool accepted = r >= 0 && (uint64_t)r <= in.size();
	if (oracle == 14) {
		check_decode_result(c, in, r, ref, "untrusted input");
		if (c.failed)
			return;
		// whatever structure results: these must return (a signal or sanitizer report kills the process)
		aw_validate(img.data());
		aw_get_format(img.data());
		aw_tostring(img.data());
		if (accepted) {
			c.cls("accepted");
			// truncating an accepted header at any point never yields success
			// (every point for ordinary headers; for the rare header of many kilobytes: the first and last 300
			// points and every 509th in between - each trial decodes the whole prefix)
			for (int m = 0; m < r && !c.failed; m++) {
				if (r > 1000 && m >= 300 && m < r - 300 && m % 509 != 0)
					continue;
				Bytes pre(in.begin(), in.begin() + m);
				Bytes img2(S);
				int r2 = aw_decode(pre.data(), (unsigned)m, img2.data());
				CHECK(c, r2 < 0 || r2 > m, "accepted %d-byte header truncated to %d bytes decodes with result %d (success): %s", r, m,
				      r2, hex(in).c_str());
				if (!c.failed) {
					aw_validate(img2.data());
					aw_get_format(img2.data());
					aw_tostring(img2.data());
				}
			}
		}
	} else if (accepted) {
		c.cls("accepted");
		if (ref.has_fact || ref.has_ext || ref.skip_len) {
			c.nontrivial = true;
			c.cls(ref.has_fact ? "accepted-with-fact-chunk" : "accepted-with-extension");
		}
		// C13 reverse: re-encoding reproduces the bytes (ignored extension bytes normalised to zero) and the length
		Bytes out(r);
		int e = aw_encode(img.data(), out.data(), (unsigned)r);
		CHECK(c, e == r, "decode accepted %d bytes but re-encoding the decoded structure produces %d: %s", r, e, hex(in).c_str());
		if (c.failed)
			return;
		Bytes exp(in.begin(), in.begin() + r);
		for (uint64_t i = 0; i < ref.skip_len && ref.skip_at + i < exp.size(); i++)
			exp[ref.skip_at + i] = 0;
		for (int i = 0; i < r && !c.failed; i++)
			CHECK(c, out[i] == exp[i], "re-encoded byte %d is %02x, decoded input had %02x: in %s / out %s", i, out[i], exp[i],
			      hex(in).c_str(), hex(out).c_str());
	}
}

const uint32_t EDGE32[] = { 0, 1, 2, 16, 17, 18, 19, 22, 40, 44, 50, 58, 0x7fffffff, 0x80000000u, 0xffffffe4u, 0xfffffff4u,
			    0xfffffffeu, 0xffffffffu };

void put32(Bytes &b, uint32_t v)
{
	for (int i = 0; i < 4; i++)
		b.push_back((uint8_t)(v >> (8 * i)));
}
void put16(Bytes &b, uint32_t v)
{
	b.push_back((uint8_t)v);
	b.push_back((uint8_t)(v >> 8));
}
void putid(Bytes &b, const char *s)
{
	for (int i = 0; i < 4; i++)
		b.push_back((uint8_t)s[i]);
}

// 16-bit fields: the natural value, small/odd values (0, 1, 4, 7, ...), or anything
uint32_t pick16(Tape &t, uint32_t natural, unsigned wnat)
{
	static const uint32_t SMALL[] = { 0, 1, 2, 3, 4, 7, 8, 9, 12, 15, 16, 17, 24, 31, 32, 33, 255, 256, 0x7fff, 0x8000, 0xffff };
	switch (t.weighted({ wnat, 2, 1 })) {
	default:
	case 0: return natural;
	case 1: return SMALL[t.choose(sizeof SMALL / sizeof *SMALL)];
	case 2: return t.choose(65536);
	}
}

uint32_t pick32(Tape &t, uint32_t natural)
{
	switch (t.weighted({ 6, 2, 1, 1 })) {
	default:
	case 0: return natural;
	case 1: return EDGE32[t.choose(sizeof EDGE32 / sizeof *EDGE32)];
	case 2: return t.u32();
	case 3: return natural + (uint32_t)t.choose(5) - 2;
	}
}

// a header assembled field by field; mostly plausible, any field may be hostile
Bytes structured(Tape &t, Ctx &c)
{
	Bytes b;
	static const char *IDS[] = { "RIFF", "WAVE", "fmt ", "fact", "data", "LIST", "riff", "\0\0\0\0" };
	auto id = [&](int natural) { putid(b, t.weighted({ 12, 1 }) == 0 ? IDS[natural] : IDS[t.choose(8)]); };
	uint32_t fmt_kind = t.weighted({ 3, 3, 3, 2 }); // PCM16, float+fact, extensible, odd
	static const uint32_t ODD[] = { 0, 15, 17, 19, 20, 22, 24, 30, 64 };
	uint32_t fmt_size = fmt_kind == 0 ? 16 : fmt_kind == 1 ? 18 : fmt_kind == 2 ? 40 : ODD[t.choose(9)];
	fmt_size = pick32(t, fmt_size);
	uint32_t cb = fmt_size >= 18 ? (fmt_kind == 2 ? 22 : 0) : 0;
	if (t.weighted({ 6, 1 }) == 1)
		cb = t.flip() ? 22 : t.choose(65536);
	bool fact = fmt_kind == 1 ? t.weighted({ 1, 5 }) == 1 : t.weighted({ 5, 1 }) == 1;
	uint32_t channels = 1 + t.choose(4), bytes = t.flip() ? 2 : 4, rate = t.flip() ? 44100 : t.choose(200000);
	uint32_t frames = t.choose(1000);
	// now and then an extension the decoder does not understand, of 255 ... 70000 bytes, supplied in full (the header
	// then exceeds 2^8 / 2^16 bytes)
	bool bigext = c.feat(2) && t.weighted({ 30, 1 }) == 1;
	if (bigext) {
		static const uint32_t EXT[] = { 255, 256, 257, 300, 4096, 65535, 65536, 65537, 70000 };
		fmt_size = 18 + EXT[t.choose(sizeof EXT / sizeof *EXT)];
		cb = t.choose(3) == 0 ? 0 : t.choose(65536);
		if (cb == 22)
			cb = 23;
		c.cls("unknown-extension-of-255-bytes-or-more");
		if (fmt_size - 18 >= 65535)
			c.cls("unknown-extension-of-65535-bytes-or-more");
	}
	uint32_t skip = (fmt_size >= 18 && cb != 22) ? fmt_size - 18 : 0;
	uint32_t skip_emitted = bigext ? skip : skip > 64 ? t.choose(65) : skip; // a huge declared extension is otherwise not supplied in full
	uint32_t hdr = 12 + 8 + 16 + (fmt_size >= 18 ? 2 + (cb == 22 ? 22 : skip_emitted) : 0) + (fact ? 12 : 0) + 8;
	// "wide" headers: every number rf_wavheader_tostring prints is as long as it can get (an unknown format, five-digit
	// channel count, rate and sample count of 2^31 and more, which print as negative numbers through %d)
	bool wide = c.feat(2) && t.weighted({ 15, 1 }) == 1;
	uint32_t wide_rate = 0, wide_data = 0;
	if (wide) {
		wide_rate = t.flip() ? 0x80000000u + t.choose(1147483648u) : 1000000000u + t.choose(1147483647u);
		wide_data = t.flip() ? 0x80000000u + t.choose(1147483648u) : 1000000000u + t.choose(1147483647u);
		c.cls("widest-printable-fields");
	}
	id(0);
	put32(b, wide ? (t.flip() ? 0xffffffffu : hdr - 8) : pick32(t, hdr - 8 + frames * channels * bytes));
	id(1);
	id(2);
	put32(b, fmt_size);
	put16(b, wide ? 0x1000 + t.choose(0xe000) : t.weighted({ 6, 1 }) == 0 ? (fmt_kind == 1 ? 3 : fmt_kind == 2 ? 0xfffe : 1) : t.choose(65536));
	put16(b, wide ? 10000 + t.choose(55536) : pick16(t, channels, 8));
	put32(b, wide ? wide_rate : pick32(t, rate));
	put32(b, pick32(t, rate * channels * bytes));
	put16(b, wide ? 1 : t.weighted({ 5, 2, 1 }) == 0 ? channels * bytes : t.flip() ? 0 : pick16(t, channels * bytes, 1)); // block_align 0 is interesting
	put16(b, pick16(t, bytes * 8, 6)); // sample widths below one byte are interesting too
	if (fmt_size >= 18) {
		put16(b, cb);
		if (cb == 22) {
			put16(b, bytes * 8);
			put32(b, t.u32());
			for (int i = 0; i < 16; i++)
				b.push_back((uint8_t)t.choose(256));
		} else if (bigext)
			for (uint32_t i = 0; i < skip_emitted; i++)
				b.push_back((uint8_t)(i * 31 + 7));
		else
			for (uint32_t i = 0; i < skip_emitted; i++)
				b.push_back((uint8_t)(t.flip() ? 0 : 1 + t.choose(255)));
	}
	if (fact) {
		id(3);
		put32(b, pick32(t, 12));
		put32(b, frames * channels);
	}
	id(4);
	put32(b, wide ? wide_data : pick32(t, frames * channels * bytes));
	// length manipulations: exact, truncated, or with trailing bytes (sample data)
	switch (t.weighted({ 5, 3, 3 })) {
	case 1:
		b.resize(t.choose(b.size() + 1));
		c.cls("structured-truncated");
		break;
	case 2:
		for (unsigned i = t.choose(24); i > 0; i--)
			b.push_back((uint8_t)t.choose(256));
		break;
	}
	// sparse byte mutations
	for (unsigned k = t.weighted({ 4, 2, 1 }); k > 0 && !b.empty(); k--)
		b[t.choose(b.size())] = (uint8_t)t.choose(256);
	return b;
}
} // namespace

void h_run(Ctx &c)
{
	Tape &t = c.t;
	int oracle = (int)c.param("oracle", 13);
	unsigned S = aw_sizeof();
	// kinds: 0 forward (init / set_num_frames), 1 structured bytes, 2 raw bytes
	long forced = c.param("kind", -1);
	unsigned kind = forced >= 0 ? (unsigned)forced : (oracle == 13 ? t.weighted({ 3, 3, 0 }) : t.weighted({ 0, 4, 2 }));
	if (kind == 0) {
		int fmt = (int)t.choose(3); // S16LE, S32LE, FLOAT
		uint32_t bytes = fmt == 0 ? 2 : 4;
		static const uint32_t CH[] = { 1, 2, 6, 8, 255, 256 };
		uint32_t ch = t.weighted({ 3, 1 }) == 0 ? CH[t.choose(6)] : 1 + t.choose(65535 / bytes);
		if (ch * bytes > 65535)
			ch = 65535 / bytes;
		uint32_t ba = ch * bytes;
		// byte_rate = rate * block_align must stay below 2^31 (the computation is done in int)
		uint32_t maxrate = 0x7fffffffu / ba;
		static const uint32_t RATES[] = { 0, 1, 8000, 44100, 48000, 192000 };
		uint32_t rate = t.weighted({ 3, 1, 1 }) == 0 ? RATES[t.choose(6)] : t.choose((uint64_t)maxrate + 1);
		if (rate > maxrate)
			rate = maxrate;
		// prior contents of the structure
		Bytes img(S);
		unsigned prior = t.choose(3);
		if (prior == 1)
			for (auto &x : img)
				x = (uint8_t)t.choose(256);
		else if (prior == 2) {
			int pfmt = (int)t.choose(3);
			aw_init(img.data(), 22050, 1 + (int)t.choose(3), pfmt);
			aw_set_frames(img.data(), t.choose(5000));
		}
		aw_init(img.data(), (int)rate, (int)ch, fmt);
		// frames such that header + data fits in 32 bits
		uint32_t maxframes = (0xffffffffu - 64) / ba;
		unsigned nset = t.choose(4);
		uint32_t frames = 0;
		std::string fl;
		for (unsigned i = 0; i < nset; i++) {
			switch (t.weighted({ 3, 2, 1, 1 })) {
			default:
			case 0: frames = t.choose(100000); break;
			case 1: frames = t.choose(4); break;
			case 2: frames = maxframes - t.choose(3); break;
			case 3: frames = t.choose((uint64_t)maxframes + 1); break;
			}
			if (frames > maxframes)
				frames = maxframes;
			aw_set_frames(img.data(), frames);
			fl += std::to_string(frames) + " ";
		}
		static const char *FN[] = { "S16LE", "S32LE", "FLOAT" };
		c.note("init(rate %u, channels %u, %s) over %s structure; set_num_frames: %s", rate, ch, FN[fmt],
		       prior == 0 ? "a zeroed" : prior == 1 ? "a random-filled" : "a previously initialised", fl.c_str());
		if (frames > 0 || ch > 1 || prior != 0)
			c.nontrivial = true;
		if (prior == 2)
			c.cls("forward-over-previous-header");
		if (nset >= 2)
			c.cls("forward-frames-set-twice");
		if (oracle != 13)
			return;
		CHECK(c, aw_validate(img.data()) == 0, "header from init(%u Hz, %u ch, %s)+set_num_frames(%s) does not validate", rate, ch,
		      FN[fmt], fl.c_str());
		if (c.failed)
			return;
		Bytes enc(128);
		int L = aw_encode(img.data(), enc.data(), 128);
		CHECK(c, L >= 44 && L <= 128, "encode returned %d", L);
		if (c.failed)
			return;
		enc.resize(L);
		Bytes exact(L);
		int L2 = aw_encode(img.data(), exact.data(), (unsigned)L);
		CHECK(c, L2 == L && exact == enc, "encoding into an exactly-sized buffer gives length %d / different bytes (first gave %d)", L2, L);
		Bytes back(S);
		int d = aw_decode(enc.data(), (unsigned)L, back.data());
		CHECK(c, d == L, "%s header (%u ch, %u Hz, %u frames) encodes to %d bytes but decoding them returns %d: %s", FN[fmt], ch, rate,
		      frames, L, d, hex(enc).c_str());
		if (c.failed)
			return;
		if (back != img) {
			unsigned i = 0;
			while (i < S && back[i] == img[i])
				i++;
			c.fail("%s header (%u ch, %u Hz, frames %s, %s prior contents): encode then decode is not the identity; structure byte %u is "
			       "%02x, was %02x (sample_length %u vs %u, fact size %u vs %u): %s",
			       FN[fmt], ch, rate, fl.c_str(), prior == 0 ? "zeroed" : prior == 1 ? "random" : "previous-header", i, back[i], img[i],
			       aw_field(back.data(), F_SAMPLE_LENGTH), aw_field(img.data(), F_SAMPLE_LENGTH), aw_field(back.data(), F_FACT_SIZE),
			       aw_field(img.data(), F_FACT_SIZE), hex(enc).c_str());
			return;
		}
		uint32_t cs = aw_field(img.data(), F_CHUNK_SIZE), ds = aw_field(img.data(), F_DATA_SIZE);
		CHECK(c, ds == frames * ba, "data size %u, expected frames*block_align = %u", ds, frames * ba);
		CHECK(c, aw_field(img.data(), F_BLOCK_ALIGN) == ba, "block_align %u, expected channels*bytes = %u", aw_field(img.data(), F_BLOCK_ALIGN), ba);
		CHECK(c, aw_field(img.data(), F_BYTE_RATE) == rate * ba, "byte_rate %u, expected rate*block_align = %u", aw_field(img.data(), F_BYTE_RATE), rate * ba);
		CHECK(c, aw_field(img.data(), F_BITS) == 8 * bytes, "bits_per_sample %u, expected %u", aw_field(img.data(), F_BITS), 8 * bytes);
		CHECK(c, aw_field(img.data(), F_CHANNELS) == ch && aw_field(img.data(), F_RATE) == rate, "channels/rate not stored");
		CHECK(c, cs == (uint32_t)L - 8 + ds,
		      "RIFF chunk size is %u but %u bytes follow it in a file with this %d-byte %s header and %u data bytes (%u ch, %u frames)", cs,
		      (uint32_t)L - 8 + ds, L, FN[fmt], ds, ch, frames);
		CHECK(c, aw_get_format(img.data()) == fmt, "get_format returns %d for a %s header", aw_get_format(img.data()), FN[fmt]);
		// and the forward bytes are themselves an input the reverse oracle must accept
		if (!c.failed)
			run_bytes(c, enc, 13);
		return;
	}
	Bytes in;
	if (kind == 1) {
		in = structured(t, c);
		c.cls("structured-bytes");
	} else {
		unsigned n = t.weighted({ 1, 3 }) == 0 ? t.choose(44) : 44 + t.choose(60);
		bool magic = t.flip();
		for (unsigned i = 0; i < n; i++)
			in.push_back((uint8_t)t.choose(256));
		if (magic && n >= 12) {
			memcpy(in.data(), "RIFF", 4);
			memcpy(in.data() + 8, "WAVE", 4);
		}
		c.cls("raw-bytes");
	}
	run_bytes(c, in, oracle);
}
