// C06, third scenario (and its share of C07): the console fibre fed by console_putchar from interrupt
// context / another thread.  console.c, fibre.c, ringbuf.c, messageq.c and list.c are the real object code
// under harness/isched/vrt.c; the input path is ringbuf_put + fibre_run_atomic, the consumer is console_run
// dispatched by the scheduler.
#include <string>

#include "../core/tape.hpp"
#include "../isched/vrt.h"

extern "C" {
void ac_reset(void);
int ac_register(const char *name);
void ac_putchar(int ch);
uint32_t ac_sched(uint32_t t);
int ac_ring_empty(void);
int hc_capture(int cmd, int argc, const int *off, const int *term, const char (*arg)[81]);
void hc_complete(int cmd);
}

const char *H_NAME = "conconc";

namespace {
struct Sc {
	Ctx *c;
	int mode;
	std::vector<std::string> lines;      // what injector i types (one complete line each)
	std::vector<int> fired_order;        // injector ids in the order they started
	std::vector<std::string> dispatched; // "argv0|argv1|..." per capture
	uint32_t now = 10;
};
Sc *G;
Tape *GT;

int choose_cb(int n)
{
	Tape &t = *GT;
	if (n <= 1)
		return 0;
	if (t.enumerating)
		return (int)t.choose(n);
	return t.weighted({ 9, 1 }) == 0 ? 0 : 1 + (int)t.choose(n - 1);
}

void injector(void *arg)
{
	Sc &s = *G;
	int id = (int)(intptr_t)arg;
	s.fired_order.push_back(id);
	for (char ch : s.lines[id])
		ac_putchar(ch);
	if (s.c->want_log)
		s.c->note("[t=%llu ctx %d] console_putchar x%zu: \"%s\"", (unsigned long long)vrt_now(), vrt_self(), s.lines[id].size(),
			  s.lines[id].substr(0, s.lines[id].size() - 1).c_str());
}

void main_passes(void *arg)
{
	Sc &s = *G;
	int n = (int)(intptr_t)arg;
	for (int i = 0; i < n && !vrt_report()->deadlock; i++) {
		vrt_point();
		ac_sched(s.now++);
	}
}
} // namespace

extern "C" void hc_complete(int cmd) { (void)cmd; }

extern "C" int hc_capture(int cmd, int argc, const int *off, const int *term, const char (*arg)[81])
{
	Sc &s = *G;
	std::string d;
	for (int i = 0; i < argc && i < 4; i++) {
		if (i)
			d += "|";
		d += (off[i] >= 0 && term[i]) ? arg[i] : "<bad pointer>";
	}
	s.dispatched.push_back(d);
	if (s.c->want_log)
		s.c->note("[t=%llu ctx %d] command dispatched: %s", (unsigned long long)vrt_now(), vrt_self(), d.c_str());
	(void)cmd;
	return 0;
}

void h_run(Ctx &c)
{
	Tape &t = c.t;
	Sc s;
	G = &s;
	GT = &t;
	s.c = &c;
	int oracle = (int)c.param("oracle", 6);
	bool fixed = t.enumerating || c.param("fixed", 0);
	s.mode = (int)c.param("mode", fixed ? 1 : -1);
	if (s.mode < 0)
		s.mode = (int)t.choose(2);
	int every = (int)c.param("every_access", fixed ? 0 : -1);
	if (every < 0)
		every = (int)t.choose(2);
	// one producer context at a time (the ring is single-producer): ISR handlers of equal priority cannot nest;
	// THREADS mode has a single injector thread. At most 15 characters in total (the ring holds 15).
	unsigned ninj = s.mode == VRT_THREADS ? 1 : (unsigned)c.param("injectors", fixed ? 2 : 0);
	if (!ninj)
		ninj = 1 + t.choose(3);
	static const char *LINES[] = { "a\n", "a x\n", "a 'b c'\n", "a 1 2\n" };
	unsigned budget = 15;
	for (unsigned i = 0; i < ninj; i++) {
		std::string l = LINES[fixed ? i % 4 : t.choose(4)];
		if (l.size() > budget)
			l = "a\n";
		if (l.size() > budget)
			break; // the ring (15 bytes) would drop characters before the console ever sees them: not a console fault
		budget -= (unsigned)l.size();
		s.lines.push_back(l);
	}
	ninj = (unsigned)s.lines.size();
	int passes = (int)c.param("passes", fixed ? 4 : 2 + (int)t.choose(5));

	vrt_reset(s.mode, choose_cb);
	vrt_config((int)c.param("preempt", -1), every, 0);
	ac_reset();
	ac_register("a");
	vrt_set_main_clock_base();
	c.note("%s mode (%s granularity): %u injector context(s), %d scheduler passes while they may strike", s.mode == VRT_THREADS ? "THREADS" : "ISR",
	       every ? "every access" : "atomic operation", ninj, passes);
	if (s.mode == VRT_THREADS) {
		vrt_spawn(main_passes, (void *)(intptr_t)passes, 0);
		vrt_spawn(injector, (void *)(intptr_t)0, 0);
		vrt_run();
	} else {
		for (unsigned i = 0; i < ninj; i++)
			vrt_set_role(vrt_spawn(injector, (void *)(intptr_t)i, 1), 1); // invocations of the one input interrupt
		vrt_isr_enable(1);
		main_passes((void *)(intptr_t)passes);
		vrt_point();
		vrt_fire_pending();
		vrt_isr_enable(0);
		vrt_join_all();
	}
	const struct vrt_report *R = vrt_report();
	bool ok6 = true;
	if (R->deadlock) {
		ok6 = false;
		if (oracle == 6)
			c.fail("the scenario did not terminate within the step bound");
	}
	// drain: no further stimulus, the scheduler alone must deliver every line
	bool idle = false;
	for (int i = 0; i < 60 && !c.failed; i++) {
		uint32_t tnow = s.now++;
		uint32_t r = ac_sched(tnow);
		if (r != tnow && ac_ring_empty()) {
			idle = true;
			break;
		}
	}
	if (oracle == 6 && !c.failed) {
		CHECK(c, idle, "the console fibre did not go idle within 60 passes after the last character");
		std::vector<std::string> exp;
		for (int id : s.fired_order) {
			std::string l = s.lines[id];
			// reference tokenisation of the fixed lines
			if (l == "a\n") exp.push_back("a");
			else if (l == "a x\n") exp.push_back("a|x");
			else if (l == "a 'b c'\n") exp.push_back("a|b c");
			else exp.push_back("a|1|2");
		}
		if (!c.failed && s.dispatched != exp) {
			std::string g, e;
			for (auto &x : s.dispatched) g += "[" + x + "] ";
			for (auto &x : exp) e += "[" + x + "] ";
			c.fail("console_putchar from %s context delivered %zu complete line(s) %sbut the console fibre dispatched %s(no further stimulus was given; a wake-up or a character was lost or duplicated)",
			       s.mode == VRT_THREADS ? "another thread's" : "interrupt", exp.size(), e.c_str(), g.empty() ? "nothing " : g.c_str());
		}
	}
	(void)ok6;
	if (oracle == 7 && !c.failed)
		CHECK(c, R->races == 0, "data race: %s", R->first_race);
	c.cls(s.mode == VRT_THREADS ? "threads-mode" : "isr-mode");
	if (!s.dispatched.empty())
		c.cls("console-line-delivered");
	if (R->interrupts || R->switches > 2)
		c.cls("console-input-interleaved-with-scheduler");
	c.nontrivial = !s.dispatched.empty() && (R->interrupts || R->switches > 2);
	c.sum("scheduling points", R->points);
	c.sum("atomic operations executed", R->atomic_ops);
	c.sum("instrumented plain accesses", R->plain_accesses);
	c.sum("interrupts fired", R->interrupts);
	c.sum("context switches", R->switches);
	c.sum("memory_order seq_cst", R->mo_hist[5]);
	c.sum("memory_order acq_rel", R->mo_hist[4]);
	c.sum("memory_order release", R->mo_hist[3]);
	c.sum("memory_order acquire", R->mo_hist[2]);
	c.sum("memory_order consume", R->mo_hist[1]);
	c.sum("memory_order relaxed", R->mo_hist[0]);
	G = nullptr;
}
