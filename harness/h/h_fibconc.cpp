// C06 (interrupt-context wake-ups and events), the interrupt-timing half of C03, and the fibre part of
// C07: the real fibre.c / messageq.c / list.c object code under generated interrupt placements (ISR
// mode, nested to depth 2) and generated thread schedules (THREADS mode).
#include <algorithm>
#include <set>
#include <string>

#include "../core/tape.hpp"
#include "../isched/vrt.h"

extern "C" {
void afc_setup(unsigned depth);
void afc_setup2(unsigned depth, unsigned size);
uint32_t afc_next(uint32_t t);
void afc_run(int i);
int afc_run_atomic(int i);
int afc_kill(int i);
int afc_timeout(uint32_t due);
int afc_self(void);
int afc_ev_claim(void);
void afc_ev_fill(int slot, uint32_t id);
int afc_ev_send(int slot);
int afc_ev_receive(uint32_t *id);
void afc_ev_release(int slot);
int afc_ev_empty(void);
int afc_canaries_ok(void);
int hfc_dispatch(int idx);
}

#ifndef H_SUFFIX
#define H_SUFFIX ""
#endif
const char *H_NAME = "fibconc" H_SUFFIX; // "_fb" = built with the __STDC_NO_ATOMICS__ fallback of atomic.h

namespace {
enum { YIELDED = 0, WAITING = 1 };
enum { EV = 0, Y = 1, SL = 2 };
const char *FN[] = { "EV", "Y", "SL" };
enum { OP_PASS, OP_RUN, OP_KILL, OP_RUN_ATOMIC };
enum { H_RA, H_EVSEND };

struct Op {
	int op, arg;
};
struct Interval {
	uint64_t s, e;
	int what; // 0 scheduler pass, 1 fibre_run, 2 fibre_kill, 3 fibre_run_atomic, 4 claim..send window of a handler
	int ctx;
};
struct Request { // a wake-up request posted with fibre_run_atomic (directly or through fibre_eventq_send)
	int f, ctx;
	uint64_t start, ret;
	bool ok;
};
struct EvSend {
	uint32_t id;
	int ctx;
	uint64_t claim_start, claim_ret, send_start, send_ret;
	bool claimed, sent_ok;
};
struct Pass {
	uint64_t start, ret;
	uint32_t t, value;
	int dispatched; // fibre or -1
	uint64_t body_entry, body_ret;
	bool yielded;
};
struct Dispatch {
	int f;
	uint64_t start;
};
struct HAct {
	int kind, f;
};

struct Sc {
	Ctx *c;
	int mode, oracle;
	unsigned evdepth;
	std::vector<Op> script;
	std::vector<std::vector<HAct>> handlers;
	// fibre behaviour
	int y_left = 0, sl_rounds = 0;
	uint32_t sl_delta = 3, sl_due = 0;
	bool sl_armed = false, epilogue = false, sl_kick = false, prelude = false;
	std::vector<uint32_t> prelude_received;
	uint32_t now = 100;
	// history
	std::vector<Dispatch> disp;
	std::vector<Request> reqs;
	std::vector<EvSend> sends;
	std::vector<Pass> passes;
	std::vector<Interval> main_calls, handler_windows;
	std::vector<std::pair<uint64_t, uint64_t>> kills[3]; // (start, ret)
	std::vector<uint64_t> handler_entry;
	std::vector<uint32_t> received;
	struct Reason {
		int f;
		uint64_t at;     // logical time from which a dispatch is owed
		const char *why;
	};
	std::vector<Reason> owed; // reasons created by the main context itself: fibre_run, a yield, an armed timeout
	unsigned reasons[3] = { 0, 0, 0 };
	Pass *cur_pass = nullptr;
	uint32_t next_id = 1;
	bool sl_early = false;
	void note(const char *fmt, ...) __attribute__((format(printf, 2, 3)))
	{
		if (!c->want_log)
			return;
		char b[300];
		va_list ap;
		va_start(ap, fmt);
		vsnprintf(b, sizeof b, fmt, ap);
		va_end(ap);
		c->note("[t=%llu ctx %d] %s", (unsigned long long)vrt_now(), vrt_self(), b);
	}
};
Sc *G;
Tape *GT;

int choose_cb(int n)
{
	Tape &t = *GT;
	if (n <= 1)
		return 0;
	if (t.enumerating)
		return (int)t.choose(n);
	// random: an interrupt / pre-emption at roughly one point in twelve
	return t.weighted({ 11, 1 }) == 0 ? 0 : 1 + (int)t.choose(n - 1);
}

void fail6(const char *fmt, ...) __attribute__((format(printf, 1, 2)));
void fail6(const char *fmt, ...)
{
	char b[700];
	va_list ap;
	va_start(ap, fmt);
	vsnprintf(b, sizeof b, fmt, ap);
	va_end(ap);
	Sc &s = *G;
	if (s.oracle == 6)
		s.c->fail("%s", b);
	else {
		s.c->cls("violation-owned-by-C06");
		s.c->note("(not this property's clause: %s)", b);
	}
}

void post_request(int f)
{
	Sc &s = *G;
	Request r;
	r.f = f;
	r.ctx = vrt_self();
	r.start = vrt_now();
	r.ok = afc_run_atomic(f);
	r.ret = vrt_now();
	s.reqs.push_back(r);
	if (r.ok)
		s.reasons[f]++;
	s.note("fibre_run_atomic(%s) -> %d", FN[f], (int)r.ok);
}

void send_event()
{
	Sc &s = *G;
	EvSend e;
	e.ctx = vrt_self();
	e.id = 0xE0000000u | ((uint32_t)e.ctx << 16) | s.next_id++;
	e.claimed = e.sent_ok = false;
	e.claim_start = vrt_now();
	int slot = afc_ev_claim();
	e.claim_ret = vrt_now();
	e.send_start = e.send_ret = 0;
	if (slot == -2)
		fail6("fibre_eventq_claim returned a pointer that is not the start of one of the queue's buffers");
	if (slot < 0) {
		s.note("fibre_eventq_claim -> NULL (queue full)");
		s.sends.push_back(e);
		return;
	}
	e.claimed = true;
	afc_ev_fill(slot, e.id);
	vrt_point(); // between filling the event and sending it
	e.send_start = vrt_now();
	Request r;
	r.f = EV;
	r.ctx = e.ctx;
	r.start = e.send_start;
	e.sent_ok = afc_ev_send(slot);
	e.send_ret = vrt_now();
	r.ret = e.send_ret;
	r.ok = e.sent_ok;
	s.reqs.push_back(r);
	if (r.ok)
		s.reasons[EV]++;
	s.handler_windows.push_back({ e.claim_ret, e.send_start, 4, e.ctx });
	s.sends.push_back(e);
	s.note("event %08x: claim slot %d, fibre_eventq_send -> %d", e.id, slot, (int)e.sent_ok);
}

void handler_fn(void *arg)
{
	Sc &s = *G;
	int h = (int)(intptr_t)arg;
	s.handler_entry.push_back(vrt_now());
	for (auto &a : s.handlers[h]) {
		if (s.c->failed)
			return;
		if (a.kind == H_RA)
			post_request(a.f);
		else
			send_event();
	}
}

void do_pass(uint32_t dt)
{
	Sc &s = *G;
	s.now += dt;
	Pass p;
	p.t = s.now;
	p.dispatched = -1;
	p.body_entry = p.body_ret = 0;
	p.yielded = false;
	p.start = vrt_now();
	s.passes.push_back(p);
	s.cur_pass = &s.passes.back();
	uint32_t v = afc_next(s.now);
	s.cur_pass = nullptr;
	Pass &q = s.passes.back();
	q.ret = vrt_now();
	q.value = v;
	s.main_calls.push_back({ q.start, q.ret, 0, vrt_self() });
	s.note("fibre_scheduler_next(%u) dispatched %s, returned now+%u", s.now, q.dispatched < 0 ? "nothing" : FN[q.dispatched], v - s.now);
	int self = afc_self();
	if (self != q.dispatched)
		fail6("fibre_self() is %d after a call that dispatched %d", self, q.dispatched);
}

void main_script(void *)
{
	Sc &s = *G;
	for (auto &o : s.script) {
		if (s.c->failed || vrt_report()->deadlock)
			return;
		vrt_point();
		switch (o.op) {
		case OP_PASS:
			do_pass((uint32_t)o.arg);
			break;
		case OP_RUN: {
			uint64_t st = vrt_now();
			afc_run(o.arg);
			s.main_calls.push_back({ st, vrt_now(), 1, vrt_self() });
			s.reasons[o.arg]++;
			s.owed.push_back({ o.arg, vrt_now(), "fibre_run" });
			s.note("fibre_run(%s)", FN[o.arg]);
			break;
		}
		case OP_KILL: {
			uint64_t st = vrt_now();
			int r = afc_kill(o.arg);
			uint64_t en = vrt_now();
			s.main_calls.push_back({ st, en, 2, vrt_self() });
			s.kills[o.arg].push_back({ st, en });
			s.note("fibre_kill(%s) -> %d", FN[o.arg], r);
			break;
		}
		case OP_RUN_ATOMIC: {
			uint64_t st = vrt_now();
			post_request(o.arg);
			s.main_calls.push_back({ st, vrt_now(), 3, vrt_self() });
			break;
		}
		}
	}
}
} // namespace

extern "C" int hfc_dispatch(int idx)
{
	Sc &s = *G;
	if (s.prelude) { // sequential warm-up of the event queue (before any interrupt context exists): not part of the history
		if (idx == EV)
			for (int guard = 0; guard < 16; guard++) {
				uint32_t id;
				int slot = afc_ev_receive(&id);
				if (slot < 0)
					break;
				s.prelude_received.push_back(id);
				afc_ev_release(slot);
			}
		return WAITING;
	}
	uint64_t entry = vrt_now();
	s.disp.push_back({ idx, entry });
	if (s.cur_pass) {
		if (s.cur_pass->dispatched >= 0)
			fail6("two fibres (%s, %s) dispatched by one fibre_scheduler_next call", FN[s.cur_pass->dispatched], FN[idx]);
		s.cur_pass->dispatched = idx;
		s.cur_pass->body_entry = entry;
	} else
		fail6("fibre %s dispatched outside fibre_scheduler_next", FN[idx]);
	int rc = WAITING;
	if (s.epilogue) {
		// nothing: record only
	} else if (idx == EV) {
		for (int guard = 0; guard < 16; guard++) {
			uint32_t id;
			int slot = afc_ev_receive(&id);
			if (slot == -2)
				fail6("fibre_eventq_receive returned a pointer that is not the start of one of the queue's buffers");
			if (slot < 0)
				break;
			s.received.push_back(id);
			s.note("EV received event %08x from slot %d", id, slot);
			vrt_point();
			afc_ev_release(slot);
		}
	} else if (idx == Y) {
		if (s.y_left > 0) {
			s.y_left--;
			rc = YIELDED;
			s.reasons[Y]++; // a yield is a reason for one more dispatch
			s.owed.push_back({ Y, vrt_now(), "its yield" });
		}
	} else {
		if (s.sl_armed) {
			s.sl_armed = false;
			if ((int32_t)(s.now - s.sl_due) < 0) {
				// woken before the due time: legitimate only if something else made it runnable
				s.sl_early = true;
			}
		}
		if (s.sl_rounds > 0) {
			s.sl_rounds--;
			if (s.sl_kick) {
				// SL wakes Y before going to sleep: fibre_run drains interrupt-context requests, so a request for
				// SL itself that arrived during this dispatch puts SL on the run queue before it arms its timeout
				afc_run(Y);
				s.reasons[Y]++;
				s.owed.push_back({ Y, vrt_now(), "fibre_run (called by SL)" });
				s.note("SL calls fibre_run(Y)");
			}
			s.sl_due = s.now + s.sl_delta;
			if (!afc_timeout(s.sl_due)) {
				s.sl_armed = true;
				s.reasons[SL]++; // the expiry will be a reason
				s.owed.push_back({ SL, vrt_now(), "its timeout (the drain advances time past the due time)" });
			}
		}
	}
	if (s.cur_pass) {
		s.cur_pass->body_ret = vrt_now();
		s.cur_pass->yielded = rc == YIELDED;
	}
	return rc;
}

void h_run(Ctx &c)
{
	Tape &t = c.t;
	Sc s;
	G = &s;
	GT = &t;
	s.c = &c;
	s.oracle = (int)c.param("oracle", 6);
	bool fixed = t.enumerating || c.param("fixed", 0);
	s.mode = (int)c.param("mode", fixed ? 1 : -1);
	if (s.mode < 0)
		s.mode = t.weighted({ 1, 3 }) == 0 ? VRT_THREADS : VRT_ISR;
	s.evdepth = (unsigned)c.param("evdepth", fixed ? 1 : 0);
	if (!s.evdepth)
		s.evdepth = 1 + t.choose(c.feat(2) ? 3 : 2);
	int every = (int)c.param("every_access", fixed ? 0 : -1);
	if (every < 0)
		every = (int)t.choose(2);
	// ---- main script
	long script_id = c.param("script", fixed ? 0 : -1);
	if (script_id == 0)
		s.script = { { OP_RUN, Y }, { OP_RUN, SL }, { OP_PASS, 1 }, { OP_PASS, 1 }, { OP_PASS, 1 }, { OP_KILL, Y }, { OP_PASS, 5 }, { OP_PASS, 1 } };
	else if (script_id == 1)
		s.script = { { OP_RUN, Y }, { OP_PASS, 1 }, { OP_PASS, 0 }, { OP_RUN, EV }, { OP_PASS, 1 }, { OP_PASS, 1 } };
	else if (script_id == 2)
		s.script = { { OP_RUN, SL }, { OP_PASS, 1 }, { OP_RUN_ATOMIC, Y }, { OP_PASS, 1 }, { OP_KILL, SL }, { OP_PASS, 1 } };
	else if (script_id == 3)
		s.script = { { OP_PASS, 1 }, { OP_PASS, 1 } };
	else if (script_id == 4) // the request queue (8 slots) completely full when the drain starts
		s.script = { { OP_RUN_ATOMIC, EV }, { OP_RUN_ATOMIC, Y }, { OP_RUN_ATOMIC, SL }, { OP_RUN_ATOMIC, Y }, { OP_RUN_ATOMIC, SL }, { OP_RUN_ATOMIC, Y },
			     { OP_RUN_ATOMIC, SL }, { OP_RUN_ATOMIC, Y }, { OP_PASS, 1 }, { OP_PASS, 1 } }; // the only request for EV sits in slot 0
	else {
		unsigned n = 2 + t.choose(8);
		if (t.weighted({ 5, 1 }) == 1) // now and then fill the 8-slot request queue first
			for (unsigned i = 0, n8 = 7 + t.choose(2), lone = t.choose(8); i < n8; i++)
				s.script.push_back({ OP_RUN_ATOMIC, i == lone ? EV : (int)(1 + i % 2) }); // one slot holds the only request for EV
		for (unsigned i = 0; i < n; i++) {
			switch (t.weighted({ 6, 3, 1, 1 })) {
			default:
			case 0: s.script.push_back({ OP_PASS, (int)t.choose(5) }); break;
			case 1: s.script.push_back({ OP_RUN, (int)t.choose(3) }); break;
			case 2: s.script.push_back({ OP_KILL, (int)t.choose(3) }); break;
			case 3: s.script.push_back({ OP_RUN_ATOMIC, (int)t.choose(3) }); break;
			}
		}
	}
	s.y_left = (int)c.param("yields", fixed ? 2 : -1);
	if (s.y_left < 0)
		s.y_left = (int)t.choose(4);
	s.sl_rounds = (int)c.param("sleeps", fixed ? 1 : -1);
	if (s.sl_rounds < 0)
		s.sl_rounds = (int)t.choose(3);
	s.sl_delta = fixed ? 3 : 1 + t.choose(6);
	s.sl_kick = !c.feat(2) ? false : c.param("sl_kick", fixed ? 0 : -1) < 0 ? t.choose(3) == 1 : c.param("sl_kick", 0) != 0;
	if (s.sl_kick && s.sl_rounds > 0)
		c.cls("sleeper-calls-fibre_run-before-arming-its-timeout");
	// ---- interrupt contexts: "hN" params are action codes: 0..2 = fibre_run_atomic(EV/Y/SL), 3 = event, 4 = two events, 5 = event + run_atomic(Y)
	unsigned nh = (unsigned)c.param("handlers", fixed ? 2 : 0);
	if (!nh)
		nh = 1 + t.choose(3);
	for (unsigned h = 0; h < nh; h++) {
		char key[8];
		snprintf(key, sizeof key, "h%u", h);
		long code = c.param(key, fixed ? (h == 0 ? 3 : 1) : -1);
		if (code < 0)
			code = (long)t.choose(6);
		std::vector<HAct> acts;
		if (code <= 2)
			acts.push_back({ H_RA, (int)code });
		else if (code == 3)
			acts.push_back({ H_EVSEND, EV });
		else if (code == 4) {
			acts.push_back({ H_EVSEND, EV });
			acts.push_back({ H_EVSEND, EV });
		} else {
			acts.push_back({ H_EVSEND, EV });
			acts.push_back({ H_RA, Y });
		}
		s.handlers.push_back(acts);
	}
	s.disp.reserve(4096);
	s.reqs.reserve(256);
	s.sends.reserve(256);
	s.passes.reserve(1024);

	vrt_reset(s.mode, choose_cb);
	vrt_config((int)c.param("preempt", -1), every, s.mode == VRT_THREADS ? 1 : 0);
	// now and then: events of 4096 bytes in a queue of 17-20 slots, so that later slots lie beyond 64 KiB
	bool bigev = !fixed && c.feat(2) && t.weighted({ 15, 1 }) == 1;
	if (bigev) {
		s.evdepth = 17 + t.choose(4);
		c.cls("event-slots-beyond-64-KiB");
	}
	afc_setup2(s.evdepth, bigev ? 4096 : 4);
	// now and then the event queue has already carried more than 2^8 events, one at a time, before the scenario starts
	unsigned warm = (!fixed && c.feat(2) && t.weighted({ 7, 1 }) == 1) ? 245 + (unsigned)t.choose(30) : 0;
	if (bigev && !warm)
		warm = 14 + (unsigned)t.choose(s.evdepth); // the scenario's events land anywhere in the ring, mostly beyond slot 15
	if (warm) {
		if (warm >= 245)
			c.cls("event-queue-warmed-up (>= 245 events before the scenario)");
		s.prelude = true;
		for (unsigned i = 0; i < warm && !c.failed; i++) {
			uint32_t id = 0xA0000000u | i;
			int slot = afc_ev_claim();
			if (slot < 0) {
				fail6("warm-up: fibre_eventq_claim failed for event #%u although every earlier event was received and released", i);
				break;
			}
			afc_ev_fill(slot, id);
			if (!afc_ev_send(slot)) {
				fail6("warm-up: fibre_eventq_send failed for event #%u with an otherwise idle scheduler", i);
				break;
			}
			afc_next(s.now);
			if (s.prelude_received.size() != i + 1 || s.prelude_received.back() != id) {
				fail6("warm-up: event #%u (id %08x) was sent (send returned true) but after the next scheduler pass the handler had received %zu events, the last being %08x",
				      i, id, s.prelude_received.size(), s.prelude_received.empty() ? 0 : s.prelude_received.back());
				break;
			}
		}
		s.prelude = false;
	}
	vrt_set_main_clock_base();
	if (c.want_log) {
		std::string sc;
		for (auto &o : s.script) {
			static const char *ON[] = { "pass+", "run ", "kill ", "run_atomic " };
			sc += ON[o.op];
			sc += o.op == OP_PASS ? std::to_string(o.arg) : FN[o.arg];
			sc += "; ";
		}
		c.note("%s mode (%s granularity), event queue depth %u, %u interrupt context(s); Y yields %d times, SL sleeps %d x %u ticks; script: %s",
		       s.mode == VRT_THREADS ? "THREADS" : "ISR", every ? "every access" : "atomic operation", s.evdepth, nh, s.y_left, s.sl_rounds, s.sl_delta,
		       sc.c_str());
	}
	if (s.mode == VRT_THREADS) {
		vrt_spawn(main_script, nullptr, 0);
		for (unsigned h = 0; h < nh; h++)
			vrt_spawn(handler_fn, (void *)(intptr_t)h, 0);
		vrt_run();
	} else {
		for (unsigned h = 0; h < nh; h++)
			vrt_spawn(handler_fn, (void *)(intptr_t)h, h == 0 ? 1 : 2); // handler 0 can be interrupted by the others
		vrt_isr_enable(1);
		main_script(nullptr);
		vrt_point();
		vrt_fire_pending();
		vrt_isr_enable(0);
		vrt_join_all(); // quiescence: the checks below run after every context has finished
	}
	const struct vrt_report *R = vrt_report();
	if (R->deadlock && !c.failed)
		fail6("the scenario did not terminate within the step bound");
	uint64_t t_last_interrupt = vrt_now();
	// ---- drain: keep calling the scheduler until it is idle (bounded: liveness is checked as bounded eventuality)
	bool idle = false;
	unsigned bound = 4 * (3 + (unsigned)s.reqs.size()) + 8 + (unsigned)s.y_left + 2 * (unsigned)s.sl_rounds;
	for (unsigned i = 0; i < bound && !c.failed; i++) {
		do_pass(1);
		Pass &p = s.passes.back();
		idle = p.dispatched < 0 && p.value != p.t;
		if (idle) {
			if (!s.sl_armed)
				break;
			// only the sleeper's timer is pending: jump to it
			if ((int32_t)(s.sl_due - s.now) > 1)
				s.now = s.sl_due - 1;
		}
	}
	if (!c.failed && !idle)
		fail6("the scheduler did not go idle within %u passes after the last interrupt (queues corrupted?)", bound);
	// ---- (1) no lost wake-up
	if (!c.failed)
		for (auto &r : s.reqs) {
			if (!r.ok)
				continue;
			bool served = false;
			for (auto &d : s.disp)
				if (d.f == r.f && d.start > r.ret)
					served = true;
			for (auto &k : s.kills[r.f])
				if (k.second > r.ret)
					served = true; // a fibre_kill that was still running / was called later may withdraw it
			if (!served) {
				fail6("fibre_run_atomic(%s) returned true at t=%llu (context %d) but %s was never dispatched afterwards and no later fibre_kill withdrew the request",
				      FN[r.f], (unsigned long long)r.ret, r.ctx, FN[r.f]);
				break;
			}
		}
	// ---- (1b) the scheduler's own reasons survive the interruptions: a fibre_run, a yield or an armed timeout is followed
	// by a dispatch (the drain phase runs past every due time) unless a fibre_kill returned later
	if (!c.failed)
		for (auto &o : s.owed) {
			bool served = false;
			for (auto &d : s.disp)
				if (d.f == o.f && d.start > o.at)
					served = true;
			for (auto &k : s.kills[o.f])
				if (k.second > o.at)
					served = true;
			if (!served) {
				fail6("%s was never dispatched again after %s at t=%llu although nothing killed it: a reason was lost across an interruption", FN[o.f],
				      o.why, (unsigned long long)o.at);
				break;
			}
		}
	// ---- (2) no duplication
	if (!c.failed) {
		unsigned nd[3] = { 0, 0, 0 };
		for (auto &d : s.disp)
			nd[d.f]++;
		for (int f = 0; f < 3; f++)
			if (nd[f] > s.reasons[f]) {
				fail6("%s was dispatched %u times but there were only %u reasons (run requests, yields, timeouts, events)", FN[f], nd[f], s.reasons[f]);
				break;
			}
	}
	// ---- (3) events: exactly once, intact, in send order where that is unambiguous
	if (!c.failed) {
		std::set<uint32_t> seen;
		for (uint32_t id : s.received) {
			bool known = false;
			for (auto &e : s.sends)
				if (e.claimed && e.send_start && e.id == id)
					known = true;
			if (!known) {
				fail6("EV received event %08x which nobody sent (corrupted or duplicated buffer)", id);
				break;
			}
			if (!seen.insert(id).second) {
				fail6("EV received event %08x twice", id);
				break;
			}
		}
		if (!c.failed)
			for (auto &e : s.sends)
				if (e.sent_ok && !seen.count(e.id)) {
					bool killed_later = false;
					for (auto &k : s.kills[EV])
						if (k.second > e.send_ret)
							killed_later = true;
					if (!killed_later) {
						fail6("event %08x: fibre_eventq_send returned true at t=%llu but EV never received it", e.id, (unsigned long long)e.send_ret);
						break;
					}
				}
		if (!c.failed)
			for (auto &a : s.sends)
				for (auto &b : s.sends)
					if (a.sent_ok && b.sent_ok && a.send_ret < b.claim_start && seen.count(a.id) && seen.count(b.id)) {
						auto ia = std::find(s.received.begin(), s.received.end(), a.id), ib = std::find(s.received.begin(), s.received.end(), b.id);
						if (ia > ib && !c.failed)
							fail6("event %08x was sent completely before event %08x was even claimed, but was received after it", a.id, b.id);
					}
	}
	// ---- (5) C03, interrupt-timing half (ISR mode only)
	bool nt3 = false;
	if (!c.failed && s.mode == VRT_ISR && s.oracle == 3) {
		// locations that interrupt contexts access atomically, learned by observation
		std::set<uintptr_t> S;
		unsigned n = vrt_alog_count();
		for (unsigned i = 0; i < n; i++) {
			uint64_t tt;
			int cx, ld;
			uintptr_t a;
			vrt_alog_get(i, &tt, &cx, &a, &ld);
			if (cx != 0)
				S.insert(a);
		}
		for (auto &p : s.passes) {
			if (p.start > t_last_interrupt)
				break;
			uint64_t last_any = 0, last_write = 0;
			for (unsigned i = 0; i < n; i++) {
				uint64_t tt;
				int cx, ld;
				uintptr_t a;
				vrt_alog_get(i, &tt, &cx, &a, &ld);
				if (cx == 0 && tt > p.start && tt < p.ret && S.count(a)) {
					last_any = std::max(last_any, tt);
					if (!ld)
						last_write = std::max(last_write, tt);
				}
			}
			for (auto &r : s.reqs) {
				if (!r.ok || r.ctx == 0)
					continue;
				if (r.ret > p.start && r.ret < p.ret)
					nt3 = true;
				// rule A: completed while the dispatched fibre's entry point was running => cannot have been drained in this call
				bool ruleA = p.dispatched >= 0 && r.ret > p.body_entry && r.ret < p.body_ret;
				// rule B: completed after the main context's last modifying atomic access to those locations (so undrained)
				// and before its last atomic access to them in this call (the scheduler's final check)
				bool ruleB = r.ret > p.start && r.ret > last_write && r.ret < last_any;
				if ((ruleA || ruleB) && p.value != p.t && !c.failed)
					c.fail("fibre_scheduler_next(%u) returned now+%u although fibre_run_atomic(%s) had completed (t=%llu, context %d) %s and was still undrained: a main loop sleeping until the returned time delays a runnable fibre",
					       p.t, p.value - p.t, FN[r.f], (unsigned long long)r.ret, r.ctx,
					       ruleA ? "while the dispatched fibre was running" : "before the scheduler's final look at the request queue");
			}
		}
	}
	// ---- (4) no corruption: a fixed sequential epilogue must behave exactly as the sequential model says
	if (!c.failed && s.oracle == 6) {
		for (int f = 0; f < 3; f++)
			afc_kill(f);
		s.epilogue = true;
		s.sl_armed = false;
		unsigned perm = fixed ? 0 : t.choose(6);
		static const int P[6][3] = { { 0, 1, 2 }, { 0, 2, 1 }, { 1, 0, 2 }, { 1, 2, 0 }, { 2, 0, 1 }, { 2, 1, 0 } };
		size_t before = s.disp.size();
		for (int k = 0; k < 3; k++)
			afc_run(P[perm][k]);
		for (int k = 0; k < 4 && !c.failed; k++)
			do_pass(1);
		std::vector<int> got;
		for (size_t i = before; i < s.disp.size(); i++)
			got.push_back(s.disp[i].f);
		std::vector<int> exp(P[perm], P[perm] + 3);
		if (got != exp && !c.failed) {
			std::string g;
			for (int x : got)
				g += std::string(FN[x]) + " ";
			fail6("after the interrupts, fibre_run(%s, %s, %s) followed by four passes dispatched [%s]: the scheduler's queues were damaged", FN[exp[0]],
			      FN[exp[1]], FN[exp[2]], g.c_str());
		}
	}
	if (!c.failed && s.oracle == 6)
		CHECK(c, R->oob == 0 && afc_canaries_ok(), "access outside the event storage: %s", R->first_oob);
	if (!c.failed && s.oracle == 7)
		CHECK(c, R->races == 0, "data race: %s", R->first_race);
	// ---- classification
	bool inside = false, nested_in_window = false;
	for (uint64_t he : s.handler_entry) {
		for (auto &m : s.main_calls)
			if (he > m.s && he < m.e) {
				inside = true;
				c.cls(m.what == 0 ? "interrupt-inside-fibre_scheduler_next" : m.what == 1 ? "interrupt-inside-fibre_run" :
				      m.what == 2 ? "interrupt-inside-fibre_kill" : "interrupt-inside-fibre_run_atomic");
			}
		for (auto &w : s.handler_windows)
			if (he > w.s && he < w.e)
				nested_in_window = true;
	}
	if (nested_in_window)
		c.cls("interrupt-nested-between-claim-and-send");
	bool evq_full = false;
	for (auto &e : s.sends)
		evq_full |= !e.claimed;
	if (evq_full)
		c.cls("event-queue-full-path");
	if (!s.received.empty())
		c.cls("event-delivered");
	if (R->interrupts >= 2)
		c.cls("two-or-more-interrupts");
	c.cls(s.mode == VRT_THREADS ? "threads-mode" : "isr-mode");
	if (s.oracle == 3)
		c.nontrivial = nt3;
	else if (s.oracle == 7)
		c.nontrivial = !s.received.empty() || !s.reqs.empty();
	else
		c.nontrivial = inside || nested_in_window || (s.mode == VRT_THREADS && R->switches > 2);
	if (nt3)
		c.cls("request-completed-inside-fibre_scheduler_next");
	c.sum("scheduling points", R->points);
	c.sum("atomic operations executed", R->atomic_ops);
	c.sum("instrumented plain accesses", R->plain_accesses);
	c.sum("context switches", R->switches);
	c.sum("interrupts fired", R->interrupts);
	c.sum("memory_order seq_cst", R->mo_hist[5]);
	c.sum("memory_order acq_rel", R->mo_hist[4]);
	c.sum("memory_order release", R->mo_hist[3]);
	c.sum("memory_order acquire", R->mo_hist[2]);
	c.sum("memory_order consume", R->mo_hist[1]);
	c.sum("memory_order relaxed", R->mo_hist[0]);
	G = nullptr;
}
