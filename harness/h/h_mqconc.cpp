// C04 (and the message-queue part of C07): many concurrent senders, one receiver, under generated
// schedules.  THREADS mode = coroutines pre-empted at atomic operations; ISR mode = senders (or the
// receiver) are run-to-completion handlers nested inside the main context.  All oracles are computed
// from call/return events only - no assumption about where operations linearise.
#include <algorithm>
#include <string>

#include "../core/tape.hpp"
#include "../isched/vrt.h"

extern "C" {
void amc_setup(unsigned depth, unsigned msg_len);
int amc_canaries_ok(void);
long amc_claim(void);
void amc_send(long o);
long amc_receive(void);
void amc_release(long o);
int amc_empty(void);
uint8_t *amc_storage(void);
}

#ifndef H_SUFFIX
#define H_SUFFIX ""
#endif
const char *H_NAME = "mqconc" H_SUFFIX; // "_fb" = built with the __STDC_NO_ATOMICS__ fallback of atomic.h

namespace {
struct Msg {
	int sender, seq;
	uint64_t claim_start, claim_ret;
	long off;
	bool send_started = false, sent = false, received = false, released = false;
	uint64_t send_ret = 0, recv_ret = 0, rel_start = 0, rel_ret = 0;
	int recv_index = -1;
	std::vector<uint8_t> payload;
};
struct Failed {
	uint64_t start, ret;
	int ctx;
};
struct Sc {
	Ctx *c;
	Tape *t;
	unsigned depth, msg_len, senders, per_sender, retries, polls, hold;
	int mode, roles;
	std::vector<Msg> msgs;
	std::vector<Failed> failed;
	std::vector<int> busy; // slot -> message index, -1 free
	unsigned owned = 0, senders_done = 0, nrecv = 0;
	long prev_slot = -1;
	bool was_full = false;
	std::string log;
	void note(const char *fmt, ...) __attribute__((format(printf, 2, 3)))
	{
		if (!c->want_log)
			return;
		char b[256];
		va_list ap;
		va_start(ap, fmt);
		vsnprintf(b, sizeof b, fmt, ap);
		va_end(ap);
		c->note("[t=%llu ctx %d] %s", (unsigned long long)vrt_now(), vrt_self(), b);
	}
};
Sc *G;
Tape *GT;

int choose_cb(int n)
{
	Tape &t = *GT;
	if (n <= 1)
		return 0;
	if (t.enumerating)
		return (int)t.choose(n);
	// random search: mostly let the current context continue, so that runs of operations happen
	return t.weighted({ 3, 1 }) == 0 ? 0 : 1 + (int)t.choose(n - 1);
}

bool api_fail(const char *fmt, ...) __attribute__((format(printf, 1, 2)));
bool api_fail(const char *fmt, ...)
{
	char b[700];
	va_list ap;
	va_start(ap, fmt);
	vsnprintf(b, sizeof b, fmt, ap);
	va_end(ap);
	Sc &s = *G;
	if (s.c->param("oracle", 4) == 4)
		s.c->fail("%s", b);
	else {
		s.c->cls("api-violation-owned-by-C04");
		s.c->note("(not this property's clause: %s)", b);
	}
	return false;
}

// one claim attempt; returns message index or -1
int do_claim(int sender, int seq)
{
	Sc &s = *G;
	uint64_t st = vrt_now();
	long off = amc_claim();
	uint64_t en = vrt_now();
	if (off == -1) {
		s.failed.push_back({ st, en, vrt_self() });
		s.note("claim -> NULL");
		return -1;
	}
	if (off < 0 || off % s.msg_len != 0 || off / s.msg_len >= s.depth) {
		api_fail("claim returned a pointer that is not a message slot inside the storage (offset %ld)", off);
		return -1;
	}
	unsigned slot = (unsigned)(off / s.msg_len);
	s.note("claim -> slot %u", slot);
	if (s.busy[slot] >= 0) {
		Msg &o = s.msgs[s.busy[slot]];
		api_fail("claim handed out slot %u to sender %d although it still belongs to %s (message %d/%d of sender %d, claimed at t=%llu, not yet released): "
			 "buffer handed out twice (depth %u, %u buffers owned)",
			 slot, sender, o.sent ? (o.received ? "the receiver" : "an undelivered message") : "its claimer", o.seq, s.per_sender, o.sender,
			 (unsigned long long)o.claim_ret, s.depth, s.owned);
		return -1;
	}
	Msg m;
	m.sender = sender;
	m.seq = seq;
	m.claim_start = st;
	m.claim_ret = en;
	m.off = off;
	s.msgs.push_back(m);
	int idx = (int)s.msgs.size() - 1;
	s.busy[slot] = idx;
	s.owned++;
	if (s.owned >= s.depth)
		s.was_full = true;
	if (s.owned > s.depth)
		api_fail("%u buffers are owned at once, the queue holds %u", s.owned, s.depth);
	return idx;
}

void do_send(int idx)
{
	Sc &s = *G;
	Msg &m = s.msgs[idx];
	unsigned used = s.msg_len > 16 ? 16 : s.msg_len; // big messages: the leading bytes only (one shadow cell per byte)
	m.payload.resize(used);
	uint8_t *p = amc_storage() + m.off;
	for (unsigned i = 0; i < used; i++)
		p[i] = m.payload[i] = (uint8_t)(0x10 * (m.sender + 1) + m.seq * 3 + i * 7 + 1);
	vrt_plain_write(p, used);
	vrt_point(); // between filling the buffer and sending it
	m.send_started = true;
	amc_send(m.off);
	m.send_ret = vrt_now();
	m.sent = true;
	s.note("send slot %ld", m.off / s.msg_len);
}

// one receive attempt (+ release unless held); returns 1 got, 0 empty, -1 error
int do_receive(bool release)
{
	Sc &s = *G;
	long off = amc_receive();
	uint64_t en = vrt_now();
	if (off == -1)
		return 0;
	if (off < 0 || off % s.msg_len != 0 || off / s.msg_len >= s.depth) {
		api_fail("receive returned a pointer that is not a message slot (offset %ld)", off);
		return -1;
	}
	unsigned slot = (unsigned)(off / s.msg_len);
	s.note("receive -> slot %u", slot);
	int idx = s.busy[slot];
	if (idx < 0) {
		api_fail("receive returned slot %u which nobody has claimed", slot);
		return -1;
	}
	Msg &m = s.msgs[idx];
	if (!m.send_started) {
		api_fail("receive returned slot %u (sender %d) before messageq_send was called for it", slot, m.sender);
		return -1;
	}
	if (m.received) {
		api_fail("the message in slot %u (sender %d seq %d) was received twice", slot, m.sender, m.seq);
		return -1;
	}
	const uint8_t *p = amc_storage() + off;
	vrt_plain_read(p, m.payload.size());
	if (memcmp(p, m.payload.data(), m.payload.size()) != 0) {
		api_fail("message of sender %d seq %d does not have the contents written before send", m.sender, m.seq);
		return -1;
	}
	m.received = true;
	m.recv_ret = en;
	m.recv_index = (int)s.nrecv++;
	if (s.prev_slot >= 0 && slot != (unsigned)((s.prev_slot + 1) % s.depth)) {
		api_fail("received slot %u after slot %ld: messages do not arrive in cyclic (claim) order", slot, s.prev_slot);
		return -1;
	}
	s.prev_slot = slot;
	if (release) {
		m.rel_start = vrt_now();
		s.busy[slot] = -1;
		s.owned--;
		amc_release(off);
		m.rel_ret = vrt_now();
		m.released = true;
		s.note("release slot %u", slot);
	}
	return 1;
}

void sender_fn(void *arg)
{
	Sc &s = *G;
	int id = (int)(intptr_t)arg;
	for (unsigned seq = 0; seq < s.per_sender && !s.c->failed; seq++) {
		int idx = -1;
		for (unsigned tr = 0; tr <= s.retries && idx < 0 && !s.c->failed; tr++) {
			idx = do_claim(id, (int)seq);
			if (idx < 0 && tr < s.retries && s.mode == VRT_THREADS)
				vrt_yield();
		}
		if (idx >= 0 && !s.c->failed)
			do_send(idx);
	}
	s.senders_done++;
}

void receiver_fn(void *)
{
	Sc &s = *G;
	unsigned polls = s.polls;
	while (!s.c->failed && !vrt_report()->deadlock) {
		bool all_done = s.senders_done == s.senders;
		bool hold_this = s.nrecv >= s.hold;
		int r = do_receive(!hold_this);
		if (r < 0)
			return;
		if (r == 0) {
			if (all_done || polls-- == 0)
				return;
			vrt_yield();
		}
	}
}

// ISR flavour of the receiver: drain what is there, once
void receiver_isr(void *)
{
	Sc &s = *G;
	for (unsigned i = 0; i < s.depth + 2 && !s.c->failed; i++)
		if (do_receive(s.nrecv < s.hold) <= 0)
			return;
}

bool overlap(uint64_t a0, uint64_t a1, uint64_t b0, uint64_t b1) { return a0 < b1 && b0 < a1; }
} // namespace

void h_run(Ctx &c)
{
	Tape &t = c.t;
	Sc s;
	G = &s;
	GT = &t;
	s.c = &c;
	s.t = &t;
	int oracle = (int)c.param("oracle", 4);
	// scenario: fixed by params in enum mode, drawn in random mode
	bool fixed = t.enumerating || c.param("fixed", 0);
	s.mode = (int)c.param("mode", fixed ? 0 : -1);
	if (s.mode < 0)
		s.mode = (int)t.choose(2);
	s.depth = (unsigned)c.param("depth", fixed ? 1 : 0);
	if (!s.depth)
		s.depth = t.weighted({ 6, 1 }) == 0 ? 1 + t.choose(3) : 1 + t.choose(32);
	s.senders = (unsigned)c.param("senders", fixed ? 2 : 0);
	if (!s.senders)
		s.senders = 1 + t.choose(s.mode == VRT_ISR ? 4 : 3);
	int nest = (int)c.param("nest", fixed ? 2 : -1);
	if (nest < 0)
		nest = 2 + (int)t.choose(2);
	s.per_sender = (unsigned)c.param("msgs", fixed ? 1 : 0);
	if (!s.per_sender)
		s.per_sender = 1 + t.choose(3);
	s.retries = (unsigned)c.param("retries", fixed ? 1 : -1);
	if ((int)s.retries < 0)
		s.retries = t.choose(3);
	s.polls = (unsigned)c.param("polls", 6);
	// 'hold' = how many messages (in receive order) get released; later ones stay with the receiver.
	// (Releases must follow receive order - the only order the API documents.)
	s.hold = (unsigned)c.param("hold", fixed ? 1000 : -1);
	if ((int)s.hold < 0)
		s.hold = t.weighted({ 3, 1 }) == 0 ? 1000 : t.choose(4);
	s.roles = (int)c.param("roles", fixed ? 0 : -1);
	if (s.roles < 0)
		s.roles = (int)t.choose(2);
	s.msg_len = (unsigned)c.param("msg_len", 4);
	unsigned precycle = fixed ? (unsigned)c.param("precycle", 0) : t.choose(2 * s.depth + 1);
	if (!fixed && c.feat(2)) {
		// now and then: a queue that has already carried more than 2^8 messages (8-bit index arithmetic has wrapped),
		// and / or a geometry whose later slots lie beyond 64 KiB (msg_len is a uint16_t)
		if (t.weighted({ 7, 1 }) == 1) {
			precycle = 240 + t.choose(40);
			c.cls("long-life (>= 240 messages before the concurrent phase)");
		}
		if (t.weighted({ 11, 1 }) == 1) {
			s.msg_len = 4096;
			s.depth = 17 + t.choose(16);
			c.cls("slots beyond 64 KiB");
		}
	}
	int budget = (int)c.param("preempt", -1);
	int every = (int)c.param("every_access", fixed ? 0 : -1);
	if (every < 0)
		every = t.weighted({ 2, 1 }) == 1; // every-access granularity: pre-empt / interrupt between plain accesses too
	int spurious = (int)c.param("spurious", fixed ? 0 : 1);
	s.busy.assign(s.depth, -1);
	s.msgs.reserve(512); // references are held across scheduling points: never reallocate
	s.failed.reserve(2048);

	vrt_reset(s.mode, choose_cb);
	vrt_config(budget, every, spurious);
	vrt_set_max_nesting(nest);
	amc_setup(s.depth, s.msg_len);
	for (unsigned i = 0; i < precycle; i++) { // start the indices anywhere
		long o = amc_claim();
		amc_send(o);
		amc_receive();
		amc_release(o);
	}
	if (precycle)
		s.prev_slot = (long)((precycle - 1) % s.depth);
	vrt_set_main_clock_base();
	c.note("%s mode: depth %u, %u sender(s) x %u message(s), %u retries, receiver %s, first message %s; pre-cycled %u; preemption budget %d",
	       s.mode == VRT_THREADS ? "THREADS" : "ISR", s.depth, s.senders, s.per_sender, s.retries,
	       s.mode == VRT_THREADS ? "is a thread" : s.roles == 0 ? "is the main context, senders are nested handlers" : "is a handler",
	       s.hold >= 1000 ? "released, like all others" : "and later ones released up to a limit, then held", precycle, budget);

	if (s.mode == VRT_THREADS) {
		for (unsigned i = 0; i < s.senders; i++)
			vrt_spawn(sender_fn, (void *)(intptr_t)i, 0);
		vrt_spawn(receiver_fn, nullptr, 0);
		vrt_run();
	} else if (s.roles == 0) {
		// main context = receiver; senders are handlers of rising priority (1, 2, 3, ...: each may interrupt the ones
		// before it, up to the nesting bound); with nest == 2 priorities are 1, 2, 2, 2
		for (unsigned i = 0; i < s.senders; i++)
			vrt_spawn(sender_fn, (void *)(intptr_t)i, nest > 2 ? (int)i + 1 : (i == 0 ? 1 : 2));
		vrt_isr_enable(1);
		unsigned rounds = s.senders * s.per_sender + 2;
		for (unsigned r = 0; r < rounds && !c.failed; r++) {
			vrt_point();
			if (do_receive(s.nrecv < s.hold) < 0)
				break;
		}
		vrt_point();
		vrt_fire_pending();
		vrt_isr_enable(0);
		vrt_join_all(); // quiescence: the checks below run after every context has finished
	} else {
		// main context = sender 0; receiver is a priority-1 handler, further senders priority 2
		vrt_spawn(receiver_isr, nullptr, 1);
		for (unsigned i = 1; i < s.senders; i++)
			vrt_spawn(sender_fn, (void *)(intptr_t)i, 2);
		vrt_isr_enable(1);
		vrt_point();
		sender_fn((void *)(intptr_t)0);
		vrt_point();
		vrt_fire_pending();
		vrt_isr_enable(0);
		vrt_join_all(); // quiescence: the checks below run after every context has finished
	}
	const struct vrt_report *R = vrt_report();
	if (R->deadlock && !c.failed)
		api_fail("the scenario did not terminate within the step bound (a context spins forever)");
	// quiescence: everything that was sent must be receivable now, exactly once
	if (!c.failed) {
		for (unsigned i = 0; i < s.depth + 1 && !c.failed; i++)
			if (do_receive(s.nrecv < s.hold) <= 0)
				break;
		for (auto &m : s.msgs)
			if (m.sent && !m.received && !c.failed)
				api_fail("message of sender %d seq %d (slot %ld) was sent but is not received once all operations have completed (%u of %zu received)",
					 m.sender, m.seq, m.off / s.msg_len, s.nrecv, s.msgs.size());
	}
	// arrival in claim order: if claim A returned before claim B was called, A is received first
	if (!c.failed)
		for (auto &a : s.msgs)
			for (auto &b : s.msgs)
				if (a.received && b.received && a.claim_ret < b.claim_start && a.recv_index > b.recv_index && !c.failed)
					api_fail("sender %d's message was claimed (t=%llu) before sender %d's claim was called (t=%llu) but arrived after it",
						 a.sender, (unsigned long long)a.claim_ret, b.sender, (unsigned long long)b.claim_start);
	// justified failure: a NULL claim needs an instant inside the call at which no buffer was free
	bool claims_overlap = false;
	if (!c.failed) {
		std::vector<uint64_t> times;
		for (auto &m : s.msgs) {
			times.push_back(m.claim_start);
			if (m.released)
				times.push_back(m.rel_ret);
		}
		for (auto &f : s.failed) {
			times.push_back(f.start);
			times.push_back(f.ret);
		}
		for (size_t fi = 0; fi < s.failed.size() && !c.failed; fi++) {
			auto &f = s.failed[fi];
			bool justified = false;
			unsigned best = 0;
			for (uint64_t tau : times) {
				if (tau < f.start || tau >= f.ret)
					continue;
				unsigned out = 0;
				for (auto &m : s.msgs)
					if (m.claim_start <= tau && (!m.released || m.rel_ret > tau))
						out++;
				for (size_t gi = 0; gi < s.failed.size(); gi++)
					if (gi != fi && s.failed[gi].start <= tau && s.failed[gi].ret > tau)
						out++;
				best = std::max(best, out);
				if (out >= s.depth)
					justified = true;
			}
			if (!justified)
				api_fail("claim by context %d failed over [t=%llu, t=%llu] although at every instant of the call at most %u of the %u buffers were "
					 "claimed-and-unreleased or being claimed",
					 f.ctx, (unsigned long long)f.start, (unsigned long long)f.ret, best, s.depth);
		}
		for (size_t i = 0; i < s.msgs.size(); i++) {
			for (size_t j = i + 1; j < s.msgs.size(); j++)
				if (s.msgs[i].sender != s.msgs[j].sender &&
				    overlap(s.msgs[i].claim_start, s.msgs[i].claim_ret, s.msgs[j].claim_start, s.msgs[j].claim_ret))
					claims_overlap = true;
			for (auto &f : s.failed)
				if (overlap(s.msgs[i].claim_start, s.msgs[i].claim_ret, f.start, f.ret))
					claims_overlap = true;
			for (auto &m2 : s.msgs)
				if (m2.released && overlap(s.msgs[i].claim_start, s.msgs[i].claim_ret, m2.rel_start, m2.rel_ret))
					claims_overlap = true;
		}
		for (size_t i = 0; i < s.failed.size(); i++)
			for (size_t j = i + 1; j < s.failed.size(); j++)
				if (overlap(s.failed[i].start, s.failed[i].ret, s.failed[j].start, s.failed[j].ret))
					claims_overlap = true;
	}
	// conservation: exactly depth - held further claims succeed
	if (!c.failed) {
		unsigned held = 0;
		for (int b : s.busy)
			held += b >= 0;
		unsigned got = 0;
		for (unsigned i = 0; i < s.depth + 2; i++) {
			long o = amc_claim();
			if (o == -1)
				break;
			got++;
			if (o >= 0 && s.busy[o / s.msg_len] >= 0) {
				api_fail("after quiescence claim handed out slot %ld which is still held", o / s.msg_len);
				break;
			}
		}
		if (!c.failed && got != s.depth - held)
			api_fail("after all operations completed %u further claims succeeded, expected capacity %u - %u held = %u", got, s.depth, held,
				 s.depth - held);
	}
	if (!c.failed && oracle == 4) {
		CHECK(c, R->oob == 0, "access outside the caller's storage: %s", R->first_oob);
		CHECK(c, amc_canaries_ok(), "bytes next to the queue storage were modified");
	}
	if (!c.failed && oracle == 7)
		CHECK(c, R->races == 0, "data race: %s", R->first_race);
	// classification
	if (s.was_full || !s.failed.empty())
		c.cls("queue-full-at-some-instant");
	if (claims_overlap)
		c.cls("claims-overlap-in-time");
	if (!s.failed.empty())
		c.cls("a-claim-failed");
	if (R->interrupts)
		c.cls(R->interrupts >= 2 ? "two-or-more-interrupts" : "one-interrupt");
	if (nest > 2 && s.mode == VRT_ISR)
		c.cls("isr-nesting-depth-3");
	if (R->switches > s.senders + 1)
		c.cls("preempted");
	if (R->spurious_cas)
		c.cls("spurious-cas-failure");
	bool handover = false;
	for (auto &m : s.msgs)
		handover |= m.received;
	if (handover)
		c.cls("payload-handed-over");
	c.cls(s.mode == VRT_THREADS ? "threads-mode" : (s.roles == 0 ? "isr-senders-interrupt-receiver" : "isr-receiver-interrupts-sender"));
	if (oracle == 7)
		c.nontrivial = handover;
	else
		c.nontrivial = claims_overlap && (s.was_full || !s.failed.empty());
	c.sum("scheduling points", R->points);
	c.sum("atomic operations executed", R->atomic_ops);
	c.sum("instrumented plain accesses", R->plain_accesses);
	c.sum("context switches", R->switches);
	c.sum("interrupts fired", R->interrupts);
	c.sum("memory_order seq_cst", R->mo_hist[5]);
	c.sum("memory_order acq_rel", R->mo_hist[4]);
	c.sum("memory_order release", R->mo_hist[3]);
	c.sum("memory_order acquire", R->mo_hist[2]);
	c.sum("memory_order consume", R->mo_hist[1]);
	c.sum("memory_order relaxed", R->mo_hist[0]);
	if (c.want_log)
		c.note("points %lu, atomic ops %lu, switches %lu, interrupts %lu, memory orders seq_cst=%lu acq_rel=%lu release=%lu acquire=%lu relaxed=%lu",
		       R->points, R->atomic_ops, R->switches, R->interrupts, R->mo_hist[5], R->mo_hist[4], R->mo_hist[3], R->mo_hist[2], R->mo_hist[0]);
	G = nullptr;
}
