// C20 - memory log always holds the most recent 256 messages, oldest first.
// Oracle: count since clear + deque of the last 256 strings formatted by the harness.
#include <climits>
#include <deque>
#include <cstdlib>

#include "../core/tape.hpp"

extern "C" {
int am_nfmt(void);
int am_nargs(int f);
void am_clear(void);
void am_log(int nice, int f, unsigned long a, unsigned long b, unsigned long c);
int am_expected(int f, unsigned long a, unsigned long b, unsigned long c, char *out, int n);
char *am_get_line(int k);
void am_free(char *p);
char *am_dump(void);
void am_set_count(unsigned int c);
}

const char *H_NAME = "mlog";

namespace {
struct Model {
	unsigned long long n = 0; // messages recorded since the last clear
	std::deque<std::string> last;
	void record(const std::string &s)
	{
		last.push_back(s);
		if (last.size() > 256)
			last.pop_front();
		n++;
	}
};

void read_line(Ctx &c, Model &m, long k)
{
	char *got = am_get_line((int)k);
	bool in = k >= 0 && (unsigned long long)k < (m.n < 256 ? m.n : 256);
	if (!in) {
		CHECK(c, got == nullptr, "mlog_get_line(%ld) returned \"%s\" with %llu messages logged, expected NULL", k,
		      got ? got : "", m.n);
	} else {
		const std::string &exp = m.last[(size_t)k];
		CHECK(c, got != nullptr, "mlog_get_line(%ld) returned NULL with %llu messages logged, expected \"%s\"", k, m.n,
		      exp.c_str());
		if (got)
			CHECK(c, exp == got, "mlog_get_line(%ld) = \"%s\" with %llu messages logged, expected \"%s\" (message number %llu)",
			      k, got, m.n, exp.c_str(), m.n - (m.n < 256 ? m.n : 256) + k);
	}
	am_free(got);
}

void read_dump(Ctx &c, Model &m)
{
	char *d = am_dump();
	std::string exp;
	for (auto &s : m.last)
		exp += s;
	CHECK(c, d && exp == d, "mlog_dump wrote %zu bytes, expected the %zu lines concatenated (%zu bytes)", d ? strlen(d) : 0,
	      m.last.size(), exp.size());
	free(d);
}
} // namespace

void h_run(Ctx &c)
{
	Tape &t = c.t;
	Model m;
	am_clear();
	unsigned long long real_head = 0; // the harness' knowledge of the internal counter (hook bookkeeping only)
	bool moved = false, crossed_fold = false, read_after_257 = false, read_after_fold = false;
	long nops = t.enumerating ? c.param("ops", 4) : t.range(0, c.param("maxops", 30));
	unsigned long serial = 1;
	int nfmt = c.feat(2) ? am_nfmt() : 14; // the wide-field formats were added at feature level 2
	char buf[512];
	auto log1 = [&](bool nice, int f, unsigned long a, unsigned long b, unsigned long cc) {
		am_log(nice, f, a, b, cc);
		bool rec = !nice || m.n < 256;
		if (rec) {
			am_expected(f, a, b, cc, buf, sizeof buf);
			m.record(buf);
			real_head++;
			if (real_head >= 0x7fffffffull) {
				real_head -= 256;
				crossed_fold = true;
			}
		}
	};
	for (long i = 0; i < nops && !c.failed; i++) {
		switch (t.weighted({ 4, 3, 4, 1, 1, 2 })) {
		case 0: { // single message
			bool nice = t.weighted({ 3, 1 }) == 1;
			int f = (int)t.choose(nfmt);
			unsigned long a = t.flip() ? t.u32() : t.choose(6), b = t.choose(1000), cc = serial++;
			if (c.feat(2) && sizeof(unsigned long) > 4 && t.choose(4) == 1) { // arguments are word-sized: use the whole word
				a |= (unsigned long)t.u32() << 32;
				b |= (unsigned long)(t.flip() ? 0xffffffffu : t.u32()) << 32;
				c.cls("argument-wider-than-32-bits");
			}
			c.note("%s(fmt %d, %lu, %lu, %lu)", nice ? "mlog_nice" : "mlog", f, a, b, cc);
			if (nice)
				c.cls(m.n < 256 ? "nice-recorded" : "nice-dropped");
			log1(nice, f, a, b, cc);
			break;
		}
		case 1: { // burst
			unsigned k;
			switch (t.weighted({ 3, 3, 1 })) {
			default:
			case 0: k = 1 + t.choose(20); break;
			case 1: k = 250 + t.choose(14); break; // lands around 256
			case 2: k = 1 + t.choose(600); break;
			}
			bool nice = t.weighted({ 5, 1 }) == 1;
			int f = 2 + (int)t.choose(nfmt - 2);
			c.note("burst of %u x %s(fmt %d, serial...)", k, nice ? "mlog_nice" : "mlog", f);
			for (unsigned j = 0; j < k; j++) {
				log1(nice, f, serial, j, serial * 7);
				serial++;
			}
			break;
		}
		case 2: { // reads
			long k;
			switch (t.weighted({ 4, 2, 2, 1 })) {
			default:
			case 0: k = (long)t.choose(304) - 3; break;
			case 1: k = (long)(m.n < 256 ? m.n : 256) - 2 + (long)t.choose(4); break; // around the end
			case 2: k = 254 + (long)t.choose(4); break;
			case 3: {
				static const long X[] = { INT_MIN, INT_MIN + 1, -256, -1, 256, 511, 512, 65536, INT_MAX - 1, INT_MAX };
				k = X[t.choose(10)];
				break;
			}
			}
			c.note("mlog_get_line(%ld) with %llu messages logged", k, m.n);
			read_line(c, m, k);
			if (m.n >= 257)
				read_after_257 = true;
			if (crossed_fold)
				read_after_fold = true;
			break;
		}
		case 3:
			c.note("mlog_dump with %llu messages logged", m.n);
			read_dump(c, m);
			break;
		case 4:
			c.note("mlog_clear");
			am_clear();
			m = Model();
			real_head = 0;
			moved = false;
			crossed_fold = false;
			c.cls("clear");
			break;
		case 5: { // move the internal counter close to its fold point (hook), keeping it congruent mod 256
			if (m.n < 256 || crossed_fold) {
				c.cls("skipped-op");
				break;
			}
			unsigned long long below = 1 + t.choose(600); // messages until the fold
			unsigned long long target = 0x7fffffffull - below;
			if (c.feat(2) && t.flip()) {
				// or close to another place where the counter's low bits are all zero again: a multiple of 2^16, 2^24, 2^30
				static const unsigned long long ROUND[] = { 1ull << 16, 2ull << 16, 3ull << 16, 1ull << 24, 1ull << 30 };
				target = ROUND[t.choose(5)] - t.choose(300);
				c.cls("counter-moved-next-to-a-multiple-of-2^16");
			}
			target -= (target - real_head) % 256; // congruent to the current counter
			if (target <= real_head) {
				c.cls("skipped-op");
				break;
			}
			c.note("hook: move the message counter from %llu to %llu (%llu below the fold)", real_head, target,
			       0x7fffffffull - target);
			am_set_count((unsigned)target);
			real_head = target;
			moved = true;
			break;
		}
		}
	}
	// final sweep: every line and the dump
	if (!c.failed && (t.enumerating || t.flip())) {
		for (long k = -2; k < 259 && !c.failed; k++)
			read_line(c, m, k);
		if (!c.failed)
			read_dump(c, m);
		if (m.n >= 257)
			read_after_257 = true;
		if (crossed_fold)
			read_after_fold = true;
	}
	(void)moved;
	if (read_after_257)
		c.cls("read-after-257-messages");
	if (read_after_fold)
		c.cls("read-across-the-2^31-fold");
	c.nontrivial = read_after_257 || read_after_fold;
}

// hook-free: 2^31 + 1000 real mlog calls, then all 256 lines (shows the hook hides nothing)
void h_custom(long worker, long workers, long seed, std::map<std::string, std::string> &params, CustomOut &o)
{
	if (worker != 0) {
		o.exhaustive = true;
		return;
	}
	am_clear();
	const unsigned long long N = (1ull << 31) + 1000;
	for (unsigned long long i = 0; i < N; i++)
		am_log(0, 7, (unsigned long)i, 0, 0); // "%lu"
	char buf[64];
	for (int k = -1; k <= 256 && !o.failed; k++) {
		char *got = am_get_line(k);
		if (k < 0 || k >= 256) {
			if (got) {
				o.failed = true;
				o.failmsg = "after 2^31+1000 messages mlog_get_line(" + std::to_string(k) + ") is not NULL";
			}
		} else {
			snprintf(buf, sizeof buf, "%llu", N - 256 + k);
			if (!got || strcmp(got, buf)) {
				o.failed = true;
				o.failmsg = "after 2^31+1000 real mlog calls mlog_get_line(" + std::to_string(k) + ") = \"" +
					    (got ? got : "(null)") + "\", expected \"" + buf + "\"";
			}
		}
		am_free(got);
	}
	o.evaluations = 1;
	o.nontrivial = o.distinct = 0;
	o.classes["hook-free messages logged"] = N;
	o.samples.push_back("2^31+1000 real mlog(\"%lu\", i) calls without the hook, then lines -1..256 compared");
	o.exhaustive = false;
}
