// C19 - rotary encoder count equals net detent crossings for any signal sequence.
// Oracle: position = sum of +-1 over valid single-bit Gray-code transitions, latched at state 0,
// recomputed by the harness from the input sequence alone.
#include <deque>
#include <cstdlib>

#include "../core/tape.hpp"

extern "C" {
unsigned arot_size(void);
void arot_init(void *p);
void arot_decode(void *p, int state);
int arot_count(void *p);
int arot_count14(void *p);
}

const char *H_NAME = "rotenc";

namespace {
// clockwise order of the 2-bit states (as the header documents: 00 -> 01 -> 11 -> 10 -> 00)
const int CW_NEXT[4] = { 1, 3, 0, 2 };  // next state when turning clockwise from state s
const int CCW_NEXT[4] = { 2, 0, 3, 1 };

struct Model {
	int last = 0;
	uint16_t pos = 0;     // quarter steps, mod 2^16
	uint16_t latched = 0; // clicks (pos >> 2) when the encoder last rested at state 0
	bool invalid_since_detent = false;
	void step(int s)
	{
		if (s == CW_NEXT[last])
			pos++;
		else if (s == CCW_NEXT[last])
			pos--;
		else if (s != last)
			invalid_since_detent = true;
		last = s;
		if (s == 0) {
			latched = pos >> 2;
			invalid_since_detent = false;
		}
	}
};

bool check(Model &m, void *r, char *buf, size_t n)
{
	int c8 = arot_count(r), c14 = arot_count14(r);
	if (c8 != (m.latched & 0xff)) {
		snprintf(buf, n, "rotenc_count=%d but the position latched at the last detent is %u clicks (mod 256 = %u)", c8,
			 m.latched, m.latched & 0xff);
		return false;
	}
	if (c14 != (m.latched & 0x3fff)) {
		snprintf(buf, n,
			 "rotenc_count14=%d but the latched position is %u clicks (live position %u quarter-steps = %u clicks, "
			 "rotenc_count=%d)",
			 c14, m.latched & 0x3fff, m.pos, m.pos >> 2, c8);
		return false;
	}
	if ((c14 & 0xff) != c8) {
		snprintf(buf, n, "rotenc_count14=%d and rotenc_count=%d disagree in their low 8 bits", c14, c8);
		return false;
	}
	if (!m.invalid_since_detent) {
		int d = ((c14 - (m.pos >> 2)) & 0x3fff);
		if (d != 0 && d != 1 && d != 0x3fff) {
			snprintf(buf, n, "rotenc_count14=%d is more than one click from the true position %u", c14, m.pos >> 2);
			return false;
		}
	}
	return true;
}
} // namespace

void h_run(Ctx &c)
{
	Tape &t = c.t;
	void *r = malloc(arot_size());
	arot_init(r);
	Model m;
	char buf[256];
	long nops = t.enumerating ? c.param("ops", 6) : t.range(0, c.param("maxops", 40));
	auto feed = [&](int s) {
		arot_decode(r, s);
		m.step(s);
		if (!c.failed && !check(m, r, buf, sizeof buf))
			c.fail("%s", buf);
	};
	bool near256 = false;
	for (long i = 0; i < nops && !c.failed; i++) {
		if (t.enumerating) {
			int s = (int)t.choose(4);
			c.note("state %d", s);
			feed(s);
			continue;
		}
		switch (c.feat(2) ? t.weighted({ 4, 3, 2, 2, 2, 1 }) : t.weighted({ 4, 3, 2, 2, 2 })) {
		case 5: { // laps that never sample the detent: two valid quarter-steps, then an invalid jump across state 0
			bool cw = t.flip();
			unsigned k;
			switch (t.weighted({ 4, 2, 1 })) {
			default:
			case 0: k = 1 + t.choose(40); break;
			case 1: k = 60 + t.choose(240); break;
			case 2: k = 16000 + t.choose(20000); break;
			}
			c.note("%u laps %s that never visit the detent state", k, cw ? "clockwise" : "anticlockwise");
			for (unsigned q = 0; q < 3 * k && !c.failed; q++) {
				int nxt = cw ? CW_NEXT[m.last] : CCW_NEXT[m.last];
				if (nxt == 0)
					nxt = m.last ^ 3;
				feed(nxt);
			}
			c.cls("long-run-without-a-detent-sample");
			if (k >= 60)
				c.cls("128-or-more-quarter-steps-without-a-detent-sample");
			break;
		}
		case 0: { // crank k clicks
			bool cw = t.flip();
			unsigned k;
			switch (t.weighted({ 4, 2, 1 })) {
			default:
			case 0: k = 1 + t.choose(8); break;
			case 1: k = 250 + t.choose(12); break;
			case 2: k = 1 + t.choose(20000); break;
			}
			c.note("crank %u clicks %s", k, cw ? "clockwise" : "anticlockwise");
			for (unsigned q = 0; q < 4 * k && !c.failed; q++)
				feed(cw ? CW_NEXT[m.last] : CCW_NEXT[m.last]);
			break;
		}
		case 1: { // quarter steps
			bool cw = t.flip();
			unsigned k = 1 + t.choose(7);
			c.note("%u quarter-steps %s", k, cw ? "clockwise" : "anticlockwise");
			for (unsigned q = 0; q < k && !c.failed; q++)
				feed(cw ? CW_NEXT[m.last] : CCW_NEXT[m.last]);
			if (((m.pos >> 2) & 0xff) == 0 || ((m.pos >> 2) & 0xff) == 0xff)
				near256 = near256 || (m.pos & 3) != 0;
			break;
		}
		case 2: { // contact bounce between neighbours
			unsigned k = 1 + t.choose(6);
			bool cw = t.flip();
			c.note("bounce x%u towards the %s neighbour", k, cw ? "clockwise" : "anticlockwise");
			for (unsigned q = 0; q < k && !c.failed; q++) {
				int a = m.last, b = cw ? CW_NEXT[a] : CCW_NEXT[a];
				feed(b);
				feed(a);
			}
			c.cls("bounce");
			break;
		}
		case 3: {
			int s = m.last ^ 3;
			c.note("invalid two-bit jump to state %d", s);
			feed(s);
			c.cls("invalid-jump");
			break;
		}
		case 4:
			c.note("repeat state %d", m.last);
			feed(m.last);
			break;
		}
	}
	if (near256) {
		c.cls("part-way-through-a-click-next-to-a-multiple-of-256");
		c.nontrivial = true;
	}
	if (t.enumerating)
		c.nontrivial = nops > 0;
	free(r);
}

// Exhaustive breadth-first exploration of the product of the real decoder and the model from the
// initial state under all four inputs, pruned where live and latched position drift apart by more
// than DRIFT clicks (only reachable through repeated invalid jumps that never visit the detent).
void h_custom(long worker, long workers, long seed, std::map<std::string, std::string> &params, CustomOut &o)
{
	if (worker != 0) {
		o.exhaustive = true;
		return;
	}
	const int DRIFT = 3;
	unsigned sz = arot_size();
	struct Node {
		Model m;
		std::vector<uint8_t> real;
		uint32_t id;
	};
	std::vector<uint32_t> parent(1, 0); // per discovered state: parent id, and the input that led to it
	std::vector<uint8_t> via(1, 0);
	// key: last(2) | pos(16) | drift+DRIFT (3) | invalid flag (1)
	std::vector<bool> seen(1u << 22, false);
	auto key = [&](const Model &m, bool &inrange) {
		int d = (int16_t)((uint16_t)((m.pos >> 2) - m.latched) << 2) >> 2; // signed 14-bit difference
		inrange = d >= -DRIFT && d <= DRIFT;
		return ((uint32_t)m.last << 20) | ((uint32_t)m.pos << 4) | ((uint32_t)(d + DRIFT) << 1) | (m.invalid_since_detent ? 1u : 0u);
	};
	std::deque<Node> q;
	Node init;
	init.real.resize(sz);
	init.id = 0;
	arot_init(init.real.data());
	bool ok;
	seen[key(init.m, ok)] = true;
	q.push_back(init);
	unsigned long states = 1, transitions = 0, pruned = 0, partway = 0;
	char buf[256];
	std::vector<uint8_t> tmp(sz);
	while (!q.empty() && !o.failed) {
		Node n = std::move(q.front());
		q.pop_front();
		for (int s = 0; s < 4; s++) {
			Node nx = n;
			arot_decode(nx.real.data(), s);
			nx.m.step(s);
			transitions++;
			if (!check(nx.m, nx.real.data(), buf, sizeof buf)) {
				o.failed = true;
				o.failmsg = buf;
				// shortest input sequence to the failing transition, replayed through h_run's enumerating mode
				std::vector<uint32_t> path(1, (uint32_t)s);
				for (uint32_t id = n.id; id != 0; id = parent[id])
					path.push_back(via[id]);
				o.fail_tape.assign(path.rbegin(), path.rend());
				o.fail_enumerating = true;
				o.fail_params["ops"] = std::to_string(path.size());
				break;
			}
			bool inrange;
			uint32_t k = key(nx.m, inrange);
			if (!inrange) {
				pruned++;
				continue;
			}
			if (!seen[k]) {
				seen[k] = true;
				states++;
				nx.id = (uint32_t)parent.size();
				parent.push_back(n.id);
				via.push_back((uint8_t)s);
				if ((nx.m.pos & 3) && ((((nx.m.pos >> 2) + 1) & 0xff) <= 1))
					partway++;
				q.push_back(std::move(nx));
			}
		}
	}
	o.evaluations = transitions;
	o.nontrivial = o.distinct = partway;
	o.classes["product states (decoder x model)"] = states;
	o.classes["transitions checked"] = transitions;
	o.classes["transitions pruned at drift bound"] = pruned;
	snprintf(buf, sizeof buf, "BFS from the initial decoder: %lu states, %lu transitions, drift bound %d clicks", states, transitions, DRIFT);
	o.samples.push_back(buf);
	o.exhaustive = !o.failed;
}
