// C01 / C02 / C03 (sequential half) - the fibre scheduler against an abstract scheduler run in lock-step.
// param oracle=1|2|3 selects the property whose clauses are asserted.  The first divergence between the
// real scheduler and the model ends the case; it is a failure only if its kind belongs to that property
// (otherwise it is counted as 'diverged-outside-this-property': some other property's check owns it).
#include <algorithm>
#include <deque>

#include "../core/tape.hpp"

extern "C" {
void af_setup(int n);
uint32_t af_next(uint32_t t);
void af_run(int i);
int af_run_atomic(int i);
int af_kill(int i);
int af_timeout(uint32_t due);
int af_self(void);
int hf_dispatch(int idx, int seg);
}

const char *H_NAME = "fibre";

namespace {
enum { YIELDED = 0, WAITING = 1, EXITED = 2, FAILED = 3 };
const char *RCN[] = { "yielded", "waiting", "exited", "failed" };
const int NSEG = 4;
const uint64_t UNBOUNDED = 0x7fffffffull;
enum Kind { K_DISPATCH, K_KILL, K_RUNATOMIC, K_TIMEOUT, K_WAKEUP, K_META };

struct Timer {
	int f;
	uint64_t due, seq;
};

struct Model {
	int nf = 0;
	std::deque<int> runq;
	std::vector<int> atomicq; // accepted, undrained, in arrival order (capacity 8)
	std::vector<Timer> timers; // sorted by (due, seq)
	int current = -1, state = YIELDED;
	uint64_t now = 0, seq = 0;
	std::vector<int> seg;
	std::vector<char> timer_touched; // a timer of f was registered/expired/cancelled since f last ran
	// statistics for the non-triviality rules
	bool coalesced = false, kill_true = false, multi_atomic = false, timer_cancelled = false, restarted = false;
	bool multi_expiry = false, crowd_expiry = false, exited_once = false;
	std::vector<char> has_exited;

	bool queued(int f) const { return std::find(runq.begin(), runq.end(), f) != runq.end(); }
	int timer_index(int f) const
	{
		for (size_t i = 0; i < timers.size(); i++)
			if (timers[i].f == f)
				return (int)i;
		return -1;
	}
	bool cancel_timer(int f)
	{
		int i = timer_index(f);
		if (i < 0)
			return false;
		timers.erase(timers.begin() + i);
		timer_touched[f] = 1;
		timer_cancelled = true;
		return true;
	}
	void run_nodrain(int f)
	{
		if (queued(f)) {
			coalesced = true;
			return;
		}
		cancel_timer(f);
		runq.push_back(f);
	}
	void drain()
	{
		if (atomicq.size() >= 2)
			multi_atomic = true;
		std::vector<int> q;
		q.swap(atomicq);
		for (int f : q)
			run_nodrain(f);
	}
	void run(int f)
	{
		drain();
		run_nodrain(f);
	}
	bool kill(int f)
	{
		drain();
		bool r = false;
		auto it = std::find(runq.begin(), runq.end(), f);
		if (it != runq.end()) {
			runq.erase(it);
			r = true;
		}
		if (cancel_timer(f))
			r = true;
		if (r)
			kill_true = true;
		return r;
	}
	bool run_atomic(int f)
	{
		if (atomicq.size() >= 8)
			return false;
		atomicq.push_back(f);
		return true;
	}
	// called by the running fibre
	bool timeout(uint64_t due)
	{
		if (due <= now)
			return true;
		if (!queued(current)) {
			Timer t{ current, due, seq++ };
			auto pos = std::upper_bound(timers.begin(), timers.end(), t,
						    [](const Timer &a, const Timer &b) { return a.due < b.due; });
			timers.insert(pos, t);
			timer_touched[current] = 1;
		}
		return false;
	}
	int phase1(uint64_t t)
	{
		now = t;
		bool slow = state != YIELDED || !runq.empty() || !timers.empty() || !atomicq.empty();
		if (slow) {
			drain();
			if (current >= 0) {
				if (state == YIELDED)
					run(current);
				else if (state == EXITED || state == FAILED)
					seg[current] = 0;
			}
			int expired = 0;
			while (!timers.empty() && timers[0].due <= now) {
				int f = timers[0].f;
				timers.erase(timers.begin());
				runq.push_back(f);
				timer_touched[f] = 1;
				expired++;
			}
			if (expired >= 2)
				multi_expiry = true;
			if (expired >= 9)
				crowd_expiry = true;
			if (runq.empty())
				current = -1;
			else {
				current = runq.front();
				runq.pop_front();
			}
		}
		return current;
	}
	// required return value of fibre_scheduler_next, and which branch produced it
	uint64_t wakeup(int &branch) const
	{
		if (current >= 0 && state == YIELDED) {
			branch = 0;
			return now;
		}
		if (!atomicq.empty() || !runq.empty()) {
			branch = atomicq.empty() ? 1 : 2;
			return now;
		}
		if (timers.empty()) {
			branch = 4;
			return now + UNBOUNDED;
		}
		branch = 3;
		return timers[0].due;
	}
};

struct Run {
	Ctx *c;
	Tape *t;
	Model m;
	int oracle;
	bool stop = false;
	bool enumerating;
	long profile;
	uint64_t base;
	// expectation for the dispatch in flight
	int exp_fibre = -1, exp_seg = 0, got_dispatches = 0;
	bool in_next = false, sleepy = false;
	std::vector<int64_t> trace; // observations, base-independent
	bool straddle = false, c03_undrained = false, c03_timers_only = false, c03_after_yield = false;

	void diverge(Kind k, bool timer_related, const char *fmt, ...) __attribute__((format(printf, 4, 5)))
	{
		if (stop || c->failed)
			return;
		char buf[900];
		va_list ap;
		va_start(ap, fmt);
		vsnprintf(buf, sizeof buf, fmt, ap);
		va_end(ap);
		bool relevant = false;
		switch (oracle) {
		case 1: relevant = k == K_DISPATCH || k == K_KILL || k == K_RUNATOMIC; break;
		case 2: relevant = k == K_TIMEOUT || k == K_META || ((k == K_DISPATCH || k == K_KILL) && timer_related); break; // a kill of a sleeper must cancel its timeout
		case 3: relevant = k == K_WAKEUP; break;
		default: relevant = true;
		}
		stop = true;
		if (relevant)
			c->fail("%s", buf);
		else {
			c->cls("diverged-outside-this-property");
			c->note("(divergence owned by another property, case ends: %s)", buf);
		}
	}

	uint64_t gen_delta()
	{
		if (enumerating)
			return t->choose(3); // 0, 1, 2
		switch (t->weighted({ 6, 2, 1, 1 })) {
		default:
		case 0: return t->choose(profile == 2 ? 12 : 51);
		case 1: return 1 + t->choose(5);
		case 2: return UNBOUNDED - t->choose(3);
		case 3: return t->choose(UNBOUNDED + 1);
		}
	}

	// one inner or outer API call, applied to the real scheduler and to the model
	void call_run(int g, const char *who)
	{
		c->note("  %sfibre_run(%d)", who, g);
		af_run(g);
		m.run(g);
	}
	void call_run_atomic(int g, const char *who)
	{
		if (m.atomicq.size() >= 8) {
			// scope of the properties: at most 8 undrained requests. What the 9th returns is not specified
			// (a larger queue, or a drain at another moment, would be legitimate), so it is not issued.
			c->cls("skipped-op");
			c->cls("request-queue-at-documented-capacity");
			return;
		}
		int r = af_run_atomic(g);
		bool e = m.run_atomic(g);
		c->note("  %sfibre_run_atomic(%d) -> %d", who, g, r);
		trace.push_back(100 + r);
		if (r != (int)e)
			diverge(K_RUNATOMIC, false, "fibre_run_atomic(%d) returned %d with %zu undrained requests, expected %d", g, r,
				m.atomicq.size() - (e ? 1 : 0), (int)e);
	}
	void call_kill(int g, const char *who)
	{
		bool was_timer = m.timer_index(g) >= 0;
		int r = af_kill(g);
		bool e = m.kill(g);
		c->note("  %sfibre_kill(%d) -> %d", who, g, r);
		trace.push_back(200 + r);
		if (r != (int)e)
			diverge(K_KILL, was_timer, "fibre_kill(%d) returned %d, expected %d (pending run request or timeout %s)", g, r, (int)e,
				e ? "existed" : "did not exist");
	}
};

Run *G;

} // namespace

// the running fibre's body: called from inside fibre_scheduler_next
extern "C" int hf_dispatch(int idx, int seg)
{
	Run &R = *G;
	Ctx &c = *R.c;
	Tape &t = *R.t;
	Model &m = R.m;
	R.got_dispatches++;
	if (R.stop || c.failed)
		return WAITING;
	R.trace.push_back(1000 + idx * 10 + seg);
	bool timer_related = (idx >= 0 && idx < m.nf && (m.timer_touched[idx] || m.timer_index(idx) >= 0)) ||
			     (R.exp_fibre >= 0 && (m.timer_touched[R.exp_fibre]));
	if (!R.in_next || R.got_dispatches > 1) {
		R.diverge(K_DISPATCH, timer_related, "fibre %d dispatched a second time within one fibre_scheduler_next call", idx);
		return WAITING;
	}
	if (idx != R.exp_fibre) {
		if (R.exp_fibre < 0)
			R.diverge(K_DISPATCH, timer_related, "fibre %d was dispatched but no fibre is runnable (run queue empty)%s", idx,
				  m.timer_index(idx) >= 0 ? "; its timeout has not expired" : "");
		else
			R.diverge(K_DISPATCH, timer_related, "fibre %d was dispatched, the head of the FIFO run queue is fibre %d", idx, R.exp_fibre);
		return WAITING;
	}
	if (seg != R.exp_seg) {
		R.diverge(K_DISPATCH, false, "fibre %d resumed at segment %d, expected segment %d%s", idx, seg, R.exp_seg,
			  R.exp_seg == 0 ? " (it exited or failed: must restart from its beginning)" : "");
		return WAITING;
	}
	int self = af_self();
	if (self != idx) {
		R.diverge(K_DISPATCH, false, "fibre_self() is %d inside fibre %d", self, idx);
		return WAITING;
	}
	if (m.has_exited[idx]) {
		m.restarted = true;
		m.has_exited[idx] = 0;
	}
	m.timer_touched[idx] = 0;
	c.note(" dispatch fibre %d at segment %d", idx, seg);
	// what this dispatch does: drawn now, so the whole case stays a function of the tape
	unsigned ncalls = R.enumerating ? t.choose(2) : R.profile == 2 ? t.weighted({ 2, 5, 2, 1 }) : t.weighted({ 4, 3, 2, 1 });
	bool timeout_pending = false;
	// "sleepy" histories (crowds only): most dispatches just go to sleep for a short while, so that many fibres
	// are asleep together and expire together
	bool nap = R.sleepy && t.weighted({ 1, 3 }) == 1;
	if (nap)
		ncalls = 1;
	for (unsigned k = 0; k < ncalls && !R.stop && !c.failed; k++) {
		unsigned kind = nap ? 3 : R.enumerating ? t.choose(4)
					      : (R.profile == 2 ? t.weighted({ 2, 1, 1, 9 }) : t.weighted({ 3, 3, 2, 3 }));
		int g = nap ? 0 : (int)t.choose(m.nf);
		switch (kind) {
		case 0: R.call_run(g, ""); break;
		case 1: R.call_run_atomic(g, ""); break;
		case 2: R.call_kill(g, ""); break;
		case 3: {
			// scope: at most one unsatisfied fibre_timeout per dispatch (a second one would queue the fibre twice);
			// further calls in the same dispatch ask for a time that has been reached, as in
			// PT_WAIT_UNTIL(fibre_timeout(a) || fibre_timeout(b)) - they must return true and change nothing
			if (timeout_pending && !c.feat(2)) {
				c.cls("skipped-op");
				break;
			}
			uint64_t due;
			bool past = timeout_pending || (!R.enumerating && t.weighted({ 7, 1 }) == 1);
			if (timeout_pending)
				c.cls("satisfied-timeout-after-an-armed-one");
			if (past)
				due = m.now - t.choose(4);
			else if (nap)
				due = m.now + 1 + t.choose(6);
			else
				due = m.now + R.gen_delta();
			int r = af_timeout((uint32_t)due);
			bool e = m.timeout(due);
			c.note("  fibre_timeout(now%+lld) -> %d", (long long)(due - m.now), r);
			R.trace.push_back(300 + r);
			if (r != (int)e)
				R.diverge(K_TIMEOUT, true, "fibre_timeout(due = now%+lld, now = 0x%08x) returned %d, expected %d", (long long)(due - m.now),
					  (uint32_t)m.now, r, (int)e);
			if (!e)
				timeout_pending = true;
			break;
		}
		}
	}
	int rc = (int)(nap ? 0 : R.enumerating ? t.choose(4) : R.profile == 2 ? t.weighted({ 8, 2, 1, 1 }) : t.weighted({ 4, 4, 2, 1 }));
	static const int MAP[] = { WAITING, YIELDED, EXITED, FAILED };
	rc = MAP[rc];
	c.note("  returns %s", RCN[rc]);
	if (rc == EXITED || rc == FAILED)
		m.has_exited[idx] = 1;
	m.state = rc;
	m.seg[idx] = (rc == EXITED || rc == FAILED) ? 0 : (seg + 1) % NSEG;
	return rc;
}

static void run_history(Ctx &c, Tape &t, int oracle, bool force_base0, std::vector<int64_t> &trace_out, bool &stopped)
{
	Run R;
	G = &R;
	R.c = &c;
	R.t = &t;
	R.oracle = oracle;
	R.enumerating = t.enumerating;
	R.profile = c.param("profile", oracle == 2 ? 2 : 1);
	Model &m = R.m;
	m.nf = t.enumerating ? (int)c.param("fibres", 3) : 1 + (int)t.choose(6);
	if (R.profile == 2 && m.nf < 3 && !t.enumerating)
		m.nf += 3; // timer-heavy: several sleepers
	bool crowd = !t.enumerating && c.feat(2) && t.weighted({ 7, 1 }) == 1;
	if (crowd) { // more fibres than the request queue has slots: nine or more can be asleep / expire / be queued at once
		m.nf = 9 + (int)t.choose(6);
		c.cls("nine-or-more-fibres");
		R.sleepy = t.flip();
	}
	m.seg.assign(m.nf, 0);
	m.timer_touched.assign(m.nf, 0);
	m.has_exited.assign(m.nf, 0);
	af_setup(m.nf);
	// time base: anywhere in the 32-bit ring, biased to the two wrap points
	uint64_t base;
	if (t.enumerating)
		base = 0xfffffffeull;
	else
		switch (t.weighted({ 2, 3, 3, 2 })) {
		default:
		case 0: base = 0; break;
		case 1: base = 0x100000000ull - t.choose(40); break;
		case 2: base = 0x80000000ull - t.choose(40); break;
		case 3: base = t.u32(); break;
		}
	if (force_base0)
		base = 0;
	base += 0x100000000ull; // keep unwrapped times positive when small amounts are subtracted
	R.base = base;
	m.now = base;
	long maxops = c.param("maxops", 40);
	long nops = t.enumerating ? c.param("ops", 4) : t.range(0, crowd ? 3 * maxops : maxops);
	c.note("%d fibres, time base 0x%08x, %ld external ops", m.nf, (uint32_t)base, nops);
	if (R.sleepy) // the whole crowd is made runnable first
		for (int f = 0; f < m.nf && !R.stop && !c.failed; f++)
			R.call_run(f, "external ");
	for (long i = 0; i < nops && !R.stop && !c.failed; i++) {
		unsigned kind = t.enumerating ? t.choose(4) : R.profile == 2 ? t.weighted({ 6, 5, 2, 1 }) : t.weighted({ 6, 2, 3, 1 });
		if (kind == 0) {
			uint64_t dt;
			if (t.enumerating)
				dt = t.choose(2);
			else if (R.sleepy) // time mostly stands still while the crowd goes to sleep, then jumps past all of them
				switch (t.weighted({ 6, 2, 2 })) {
				default:
				case 0: dt = 0; break;
				case 1: dt = t.choose(8); break;
				case 2: dt = 7 + t.choose(10); break;
				}
			else
				switch (t.weighted({ 8, 2, 1 })) {
				default:
				case 0: dt = t.choose(R.profile == 2 ? 8 : 30); break;
				case 1: dt = 0; break;
				case 2: dt = t.flip() ? UNBOUNDED - t.choose(3) : t.choose(UNBOUNDED + 1); break;
				}
			uint64_t T = m.now + dt;
			if (((m.now ^ T) & 0x80000000ull) != 0)
				R.straddle = true;
			c.note("fibre_scheduler_next(0x%08x)  [+%llu]", (uint32_t)T, (unsigned long long)dt);
			R.exp_fibre = m.phase1(T);
			R.exp_seg = R.exp_fibre >= 0 ? m.seg[R.exp_fibre] : 0;
			R.got_dispatches = 0;
			R.in_next = true;
			int prev_state_yield = 0;
			uint32_t ret = af_next((uint32_t)T);
			R.in_next = false;
			if (R.stop || c.failed)
				break;
			if (R.got_dispatches == 0 && R.exp_fibre >= 0) {
				bool tr = m.timer_touched[R.exp_fibre];
				R.diverge(K_DISPATCH, tr, "no fibre was dispatched, fibre %d is at the head of the run queue%s", R.exp_fibre,
					  tr ? " (its timeout expired in this pass)" : "");
				break;
			}
			if (R.got_dispatches == 0)
				R.trace.push_back(999);
			int self = af_self();
			if (self != m.current) {
				R.diverge(K_DISPATCH, false, "after the call fibre_self() is %d, the call dispatched %d (-1 = idle)", self, m.current);
				break;
			}
			int branch;
			uint64_t w = m.wakeup(branch);
			(void)prev_state_yield;
			R.trace.push_back(5000000000ll + (int64_t)(uint32_t)(ret - (uint32_t)T));
			c.note(" -> returns now+%u", (uint32_t)(ret - (uint32_t)T));
			if (branch == 0)
				R.c03_after_yield = true;
			if (branch == 2)
				R.c03_undrained = true;
			if (branch == 3)
				R.c03_timers_only = true;
			if (ret != (uint32_t)w) {
				static const char *WHY[] = { "the dispatched fibre yielded", "the run queue is not empty",
							     "an accepted fibre_run_atomic request is undrained", "the earliest pending timeout",
							     "nothing is pending: now + FIBRE_UNBOUNDED_SLEEP" };
				R.diverge(K_WAKEUP, false, "fibre_scheduler_next(0x%08x) returned now+%u (0x%08x), required now+%llu (%s)", (uint32_t)T,
					  (uint32_t)(ret - (uint32_t)T), ret, (unsigned long long)(w - T), WHY[branch]);
				break;
			}
			if (branch == 3 && (int32_t)(ret - (uint32_t)T) <= 0) {
				R.diverge(K_WAKEUP, false, "returned wake-up time is not cyclically after now");
				break;
			}
		} else {
			int f = (int)t.choose(m.nf);
			if (kind == 1)
				R.call_run(f, "external ");
			else if (kind == 2)
				R.call_run_atomic(f, "external ");
			else
				R.call_kill(f, "external ");
		}
	}
	trace_out = R.trace;
	stopped = R.stop;
	// classes / non-triviality per property
	if (m.coalesced) c.cls("coalesced-reason");
	if (m.kill_true) c.cls("kill-returned-true");
	if (m.multi_atomic) c.cls("two-or-more-atomic-requests-at-one-drain");
	if (m.timer_cancelled) c.cls("timer-cancelled-by-run-or-kill");
	if (m.restarted) c.cls("restart-after-exit");
	if (m.multi_expiry) c.cls("two-or-more-sleepers-expire-in-one-pass");
	if (m.crowd_expiry) c.cls("nine-or-more-sleepers-expire-in-one-pass");
	if (R.straddle) c.cls("window-straddles-a-wrap-point");
	if (R.c03_undrained) c.cls("returns-with-undrained-atomic-request");
	if (R.c03_timers_only) c.cls("returns-with-only-timers-pending");
	if (R.c03_after_yield) c.cls("returns-after-a-yield");
	bool nt = false;
	if (oracle == 1)
		nt = m.nf >= 2 && (m.coalesced || m.kill_true || m.multi_atomic || m.timer_cancelled || m.restarted);
	else if (oracle == 2)
		nt = m.multi_expiry || m.timer_cancelled || (R.straddle && m.seq > 0);
	else
		nt = R.c03_undrained || R.c03_timers_only || R.c03_after_yield;
	if (!force_base0)
		c.nontrivial = nt;
	G = nullptr;
}

void h_run(Ctx &c)
{
	int oracle = (int)c.param("oracle", 1);
	std::vector<int64_t> tr1, tr2;
	bool stopped = false;
	run_history(c, c.t, oracle, false, tr1, stopped);
	if (oracle == 2 && !c.failed && !stopped && !c.t.enumerating) {
		// metamorphic form of "identical when the counter wraps": the same history at time base 0
		Tape t2;
		t2.raw = c.t.raw;
		t2.nraw = c.t.nraw;
		t2.bytes = c.t.bytes;
		t2.nbytes = c.t.nbytes;
		t2.from_bytes = c.t.from_bytes;
		Ctx c2(t2);
		c2.params = c.params;
		bool st2 = false;
		run_history(c2, t2, oracle, true, tr2, st2);
		if (c2.failed)
			c.fail("same history replayed at time base 0: %s", c2.failmsg.c_str());
		else if (!st2 && tr1 != tr2) {
			size_t i = 0;
			while (i < tr1.size() && i < tr2.size() && tr1[i] == tr2[i])
				i++;
			c.fail("the same history behaves differently at time base 0: observation %zu is %lld with the drawn base, %lld at base 0", i,
			       i < tr1.size() ? (long long)tr1[i] : -1ll, i < tr2.size() ? (long long)tr2[i] : -1ll);
		}
		c.cls("metamorphic-base-0-replay");
	}
}
