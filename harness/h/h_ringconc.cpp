// C05 (concurrent half) and the ring-buffer part of C07: one producer, one consumer under generated
// schedules (THREADS: coroutines pre-empted at atomic operations; ISR: either side is a
// run-to-completion handler inside the other).  Oracles use call/return events only.
#include <string>

#include "../core/tape.hpp"
#include "../isched/vrt.h"

extern "C" {
void ar_setup(unsigned buf_len);
int ar_canaries_ok(void);
int ar_put(int d);
void ar_putchar(int ch);
int ar_get(void);
int ar_empty(void);
}

#ifndef H_SUFFIX
#define H_SUFFIX ""
#endif
const char *H_NAME = "ringconc" H_SUFFIX; // "_fb" = built with the __STDC_NO_ATOMICS__ fallback of atomic.h

namespace {
struct Put {
	uint64_t start, ret;
	bool ok;
	int v;
};
struct Get {
	uint64_t start, ret;
	int v;       // -1 = nothing
	bool is_empty_call, empty_result;
};
struct Sc {
	Ctx *c;
	unsigned len, nputs, ngets;
	bool use_putchar;
	int mode, roles;
	std::vector<Put> puts;
	std::vector<Get> gets;
	std::vector<unsigned> consumer_plan; // 0 get, 1 empty
	bool producer_done = false;
};
Sc *G;
Tape *GT;

int choose_cb(int n)
{
	Tape &t = *GT;
	if (n <= 1)
		return 0;
	if (t.enumerating)
		return (int)t.choose(n);
	return t.weighted({ 3, 1 }) == 0 ? 0 : 1 + (int)t.choose(n - 1);
}

void api_fail(const char *fmt, ...) __attribute__((format(printf, 1, 2)));
void api_fail(const char *fmt, ...)
{
	char b[600];
	va_list ap;
	va_start(ap, fmt);
	vsnprintf(b, sizeof b, fmt, ap);
	va_end(ap);
	Sc &s = *G;
	if (s.c->param("oracle", 5) == 5)
		s.c->fail("%s", b);
	else
		s.c->cls("api-violation-owned-by-C05");
}

int value_of(unsigned k) { return (int)((0x91 + 37 * k) & 0xff); } // includes values >= 0x80

void producer_fn(void *)
{
	Sc &s = *G;
	for (unsigned k = 0; k < s.nputs && !s.c->failed && !vrt_report()->deadlock; k++) {
		Put p;
		p.v = value_of((unsigned)s.puts.size());
		p.start = vrt_now();
		if (s.use_putchar) {
			ar_putchar((char)p.v); // spins while the buffer is full: needs the consumer to run
			p.ok = true;
		} else
			p.ok = ar_put(p.v);
		p.ret = vrt_now();
		if (s.c->want_log)
			s.c->note("[t=%llu ctx %d] %s(0x%02x) -> %d", (unsigned long long)p.ret, vrt_self(), s.use_putchar ? "putchar" : "put", p.v, (int)p.ok);
		if (!p.ok) {
			// re-use the value next time: only successful puts enter the stream
			s.puts.push_back(p);
			if (s.mode == VRT_THREADS)
				vrt_yield();
			continue;
		}
		s.puts.push_back(p);
	}
	s.producer_done = true;
}

void consume_one(unsigned what)
{
	Sc &s = *G;
	Get g;
	g.is_empty_call = what == 1;
	g.empty_result = false;
	g.v = -1;
	g.start = vrt_now();
	if (g.is_empty_call)
		g.empty_result = ar_empty();
	else
		g.v = ar_get();
	g.ret = vrt_now();
	if (s.c->want_log)
		s.c->note("[t=%llu ctx %d] %s -> %d", (unsigned long long)g.ret, vrt_self(), g.is_empty_call ? "empty()" : "get()",
			  g.is_empty_call ? (int)g.empty_result : g.v);
	s.gets.push_back(g);
}

void consumer_fn(void *)
{
	Sc &s = *G;
	for (unsigned k = 0; k < s.consumer_plan.size() && !s.c->failed && !vrt_report()->deadlock; k++) {
		consume_one(s.consumer_plan[k]);
		Get &g = s.gets.back();
		if (s.mode == VRT_THREADS && !g.is_empty_call && g.v < 0 && !s.producer_done)
			vrt_yield();
	}
	// with putchar the producer cannot finish unless the consumer keeps draining
	while (s.use_putchar && !s.producer_done && !s.c->failed && !vrt_report()->deadlock) {
		consume_one(0);
		if (s.gets.back().v < 0)
			vrt_yield();
	}
}
} // namespace

void h_run(Ctx &c)
{
	Tape &t = c.t;
	Sc s;
	G = &s;
	GT = &t;
	s.c = &c;
	int oracle = (int)c.param("oracle", 5);
	bool fixed = t.enumerating || c.param("fixed", 0);
	s.mode = (int)c.param("mode", fixed ? 0 : -1);
	if (s.mode < 0)
		s.mode = (int)t.choose(2);
	s.roles = (int)c.param("roles", fixed ? 0 : -1);
	if (s.roles < 0)
		s.roles = (int)t.choose(2);
	s.len = (unsigned)c.param("len", fixed ? 3 : 0);
	if (!s.len)
		s.len = 2 + t.choose(4);
	s.nputs = (unsigned)c.param("puts", fixed ? 3 : 0);
	if (!s.nputs)
		s.nputs = 1 + t.choose(5);
	s.ngets = (unsigned)c.param("gets", fixed ? 3 : 0);
	if (!s.ngets)
		s.ngets = 1 + t.choose(6);
	long pc = c.param("putchar", fixed ? 0 : -1);
	s.use_putchar = s.mode == VRT_THREADS && (pc < 0 ? t.weighted({ 3, 1 }) == 1 : pc != 0);
	unsigned pre = fixed ? (unsigned)c.param("pre", 0) : t.choose(2 * s.len);
	for (unsigned i = 0; i < s.ngets; i++)
		s.consumer_plan.push_back(fixed ? (unsigned)(c.param("empties", 0) && i % 3 == 2) : (unsigned)(t.weighted({ 4, 1 }) == 1));
	s.puts.reserve(4096);
	s.gets.reserve(4096);

	vrt_reset(s.mode, choose_cb);
	int every = (int)c.param("every_access", fixed ? 0 : -1);
	if (every < 0)
		every = t.weighted({ 2, 1 }) == 1; // every-access granularity: pre-empt / interrupt between plain accesses too
	vrt_config((int)c.param("preempt", -1), every, 0);
	ar_setup(s.len);
	for (unsigned i = 0; i < pre; i++) { // every starting position of the indices
		ar_put(0x55);
		ar_get();
	}
	vrt_set_main_clock_base();
	c.note("%s mode%s: buf_len %u, indices pre-cycled by %u, %u %s, %u consumer ops", s.mode == VRT_THREADS ? "THREADS" : "ISR",
	       s.mode == VRT_ISR ? (s.roles == 0 ? " (producer interrupts consumer)" : " (consumer interrupts producer)") : "", s.len, pre, s.nputs,
	       s.use_putchar ? "putchar" : "puts", s.ngets);
	if (s.mode == VRT_THREADS) {
		vrt_spawn(producer_fn, nullptr, 0);
		vrt_spawn(consumer_fn, nullptr, 0);
		vrt_run();
	} else {
		// split the interrupting side into two handlers so that it can strike twice
		if (s.roles == 0) {
			unsigned total = s.nputs;
			s.nputs = (total + 1) / 2;
			// two invocations of the one producer interrupt (single-producer contract): same role
			vrt_set_role(vrt_spawn(producer_fn, nullptr, 1), 1);
			vrt_set_role(vrt_spawn(producer_fn, nullptr, 1), 1);
			vrt_isr_enable(1);
			vrt_point();
			consumer_fn(nullptr);
			vrt_point();
			vrt_fire_pending();
			vrt_isr_enable(0);
		vrt_join_all(); // quiescence: the checks below run after every context has finished
		} else {
			std::vector<unsigned> plan = s.consumer_plan;
			s.consumer_plan.assign(plan.begin(), plan.begin() + plan.size() / 2);
			// two invocations of the one consumer interrupt (single-consumer contract): same role
			vrt_set_role(vrt_spawn(consumer_fn, nullptr, 1), 1);
			vrt_set_role(vrt_spawn(consumer_fn, nullptr, 1), 1);
			vrt_isr_enable(1);
			vrt_point();
			producer_fn(nullptr);
			vrt_point();
			vrt_fire_pending();
			vrt_isr_enable(0);
		vrt_join_all(); // quiescence: the checks below run after every context has finished
		}
	}
	const struct vrt_report *R = vrt_report();
	if (R->deadlock)
		api_fail("the scenario did not terminate within the step bound");
	// final drain by the (now single) main context
	if (!c.failed)
		for (unsigned i = 0; i < s.len + 1; i++) {
			consume_one(0);
			if (s.gets.back().v < 0)
				break;
		}
	// successful gets, in order, are exactly the successful puts, in order
	std::vector<int> in, out;
	for (auto &p : s.puts)
		if (p.ok)
			in.push_back(p.v);
	for (auto &g : s.gets)
		if (!g.is_empty_call && g.v >= 0)
			out.push_back(g.v);
	if (!c.failed) {
		size_t i = 0;
		while (i < in.size() && i < out.size() && in[i] == out[i])
			i++;
		if (i < out.size())
			api_fail("get #%zu returned 0x%02x but successful put #%zu wrote 0x%02x%s", i, out[i], i, i < in.size() ? in[i] : 0,
				 i < in.size() ? "" : " (nothing: more bytes were read than written)");
		else if (i < in.size())
			api_fail("%zu bytes were put but only %zu came out after a final drain (byte #%zu lost)", in.size(), out.size(), i);
	}
	bool was_full = false, was_empty = false, overlapped = false;
	if (!c.failed) {
		// justified failures, from call/return times only
		for (auto &p : s.puts) {
			if (p.ok)
				continue;
			was_full = true;
			long P = 0, Gc = 0;
			for (auto &q : s.puts)
				if (q.ok && q.ret <= p.start)
					P++;
			for (auto &g : s.gets)
				if (!g.is_empty_call && g.v >= 0 && g.ret <= p.start)
					Gc++;
			if (P - Gc < (long)s.len - 1 && !c.failed)
				api_fail("put failed over [t=%llu,t=%llu] although at most %ld unread bytes can have been in the buffer during the call (buf_len-1 = %u)",
					 (unsigned long long)p.start, (unsigned long long)p.ret, P - Gc, s.len - 1);
		}
		for (auto &g : s.gets) {
			bool says_empty = g.is_empty_call ? g.empty_result : g.v < 0;
			if (!says_empty)
				continue;
			was_empty = true;
			long Pc = 0, Gd = 0;
			for (auto &q : s.puts)
				if (q.ok && q.ret <= g.start)
					Pc++;
			for (auto &h : s.gets)
				if (!h.is_empty_call && h.v >= 0 && h.ret <= g.start)
					Gd++;
			if (Pc - Gd > 0 && !c.failed)
				api_fail("%s over [t=%llu,t=%llu] reported an empty buffer although at least %ld unread bytes were in it during the whole call",
					 g.is_empty_call ? "ringbuf_empty" : "ringbuf_get", (unsigned long long)g.start, (unsigned long long)g.ret, Pc - Gd);
		}
		for (auto &p : s.puts)
			for (auto &g : s.gets)
				if (p.start < g.ret && g.start < p.ret)
					overlapped = true;
	}
	if (!c.failed && oracle == 5) {
		CHECK(c, R->oob == 0, "access outside the caller's buf_len bytes: %s", R->first_oob);
		CHECK(c, ar_canaries_ok(), "bytes next to the ring storage were modified");
	}
	if (!c.failed && oracle == 7)
		CHECK(c, R->races == 0, "data race: %s", R->first_race);
	if (was_full) c.cls("buffer-was-full");
	if (was_empty) c.cls("buffer-was-empty");
	if (overlapped) c.cls("put-overlapped-get");
	if (s.use_putchar) c.cls("putchar-spins-until-room");
	if (R->forced_switches) c.cls("fairness-forced-switch");
	if (R->interrupts) c.cls("interrupted");
	if (!out.empty()) c.cls("payload-handed-over");
	c.cls(s.mode == VRT_THREADS ? "threads-mode" : (s.roles == 0 ? "isr-producer-interrupts-consumer" : "isr-consumer-interrupts-producer"));
	c.nontrivial = oracle == 7 ? !out.empty() : (was_full && was_empty && overlapped);
	c.sum("scheduling points", R->points);
	c.sum("atomic operations executed", R->atomic_ops);
	c.sum("instrumented plain accesses", R->plain_accesses);
	c.sum("context switches", R->switches);
	c.sum("interrupts fired", R->interrupts);
	c.sum("memory_order seq_cst", R->mo_hist[5]);
	c.sum("memory_order acq_rel", R->mo_hist[4]);
	c.sum("memory_order release", R->mo_hist[3]);
	c.sum("memory_order acquire", R->mo_hist[2]);
	c.sum("memory_order consume", R->mo_hist[1]);
	c.sum("memory_order relaxed", R->mo_hist[0]);
	G = nullptr;
}
