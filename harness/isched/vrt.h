/* vrt.h - runtime behind the compiler's -fsanitize=thread instrumentation.
 *
 * The library sources are compiled with -fsanitize=thread but linked against this file instead of the
 * sanitizer runtime.  Every atomic operation (and, optionally, every plain access) of the real object
 * code therefore lands here, where
 *   - the *schedule* (a callback that consumes the case's choice tape) decides which context runs next
 *     (THREADS mode: free pre-emption between coroutines) or whether an interrupt handler fires now
 *     (ISR mode: handlers are nested function calls, run to completion, depth <= 2);
 *   - a vector-clock detector computes happens-before from the memory order actually compiled in and
 *     reports plain accesses that conflict without ordering (C07);
 *   - plain accesses next to registered buffers are checked against their exact bounds.
 * Single OS thread, no clock: a run is a pure function of (scenario, choices).
 */
#ifndef VRT_H
#define VRT_H
#include <stddef.h>
#include <stdint.h>

#ifdef __cplusplus
extern "C" {
#endif

#define VRT_MAXCTX 6
enum { VRT_THREADS = 0, VRT_ISR = 1 };

typedef void (*vrt_fn)(void *arg);
typedef int (*vrt_choose_fn)(int n); /* returns 0..n-1; 0 must mean "continue / no interrupt" */

void vrt_reset(int mode, vrt_choose_fn choose);
void vrt_config(int preempt_budget, int every_access, int spurious_cas_budget);
void vrt_set_max_nesting(int n);
/* ISR: handlers with the same role (1..VRT_MAXCTX) are successive invocations of ONE interrupt source - same priority,
 * never nested - and count as one logical context for happens-before (each is sequenced after the previous one). */
void vrt_set_role(int ctx, int role);  /* ISR: how many handlers may be active at once (default 2) */

/* THREADS: create a coroutine (runs inside vrt_run). ISR: register a handler of the given priority
 * (>= 1) that fires at most once, at a point the schedule picks.  Returns the context id (main = 0). */
int vrt_spawn(vrt_fn fn, void *arg, int prio);
void vrt_run(void);               /* THREADS: run all coroutines to completion */
void vrt_join_all(void);          /* the caller has joined every other context (done automatically at the end of vrt_run) */
void vrt_isr_enable(int on);      /* ISR: interrupts may fire only while enabled */
void vrt_point(void);             /* an explicit scheduling point in harness code */
void vrt_yield(void);             /* THREADS: voluntary switch (polling loops) */
void vrt_fire_pending(void);      /* ISR: fire every handler that has not fired yet, now */
int vrt_self(void);
int vrt_fired(int ctx);           /* ISR: has this handler run? */
uint64_t vrt_now(void);           /* logical time: increments on every event */

/* annotations for harness code (which is not instrumented) */
void vrt_plain_read(const void *p, size_t n);
void vrt_plain_write(const void *p, size_t n);
void vrt_register_buffer(const void *base, size_t len, const char *name);
void vrt_set_main_clock_base(void); /* everything done so far (set-up) happens-before every context */

/* learned during the run */
struct vrt_report {
	unsigned long points, atomic_ops, plain_accesses, switches, interrupts, spurious_cas, forced_switches;
	unsigned long mo_hist[6];
	unsigned long races, oob;
	char first_race[400];
	char first_oob[300];
	int deadlock; /* a context span forever */
};
const struct vrt_report *vrt_report(void);
/* every atomic access of the run (logical time, context, address): observation-based rules (C03 rule B) */
unsigned vrt_alog_count(void);
void vrt_alog_get(unsigned i, uint64_t *t, int *ctx, uintptr_t *addr, int *is_load);

#ifdef __cplusplus
}
#endif
#endif
