/* vrt.c - see vrt.h.  Compiled WITHOUT -fsanitize=thread. */
#define _GNU_SOURCE
#include "vrt.h"

#include <dlfcn.h>
#include <pthread.h>
#include <stdio.h>
#include <stdlib.h>
#include <string.h>
#include <ucontext.h>

#define N VRT_MAXCTX
#define STACK_SZ (256 * 1024)
#define MAX_POINTS 200000
#define FAIR_B 48

typedef uint32_t vc_t[N];

struct ctx {
	int used, finished, fired, prio, consecutive, role;
	vrt_fn fn;
	void *arg;
	ucontext_t uc;
	vc_t vc;   /* happens-before clock */
	vc_t frel; /* clock at the last release fence */
	vc_t pacq; /* release clocks seen by relaxed loads, waiting for an acquire fence */
};

static struct ctx C[N];
static vc_t role_clock[N + 1]; /* clock at which the last handler of a role finished */
static char *stacks[N];
static int nctx, cur, mode;
static vrt_choose_fn choose_cb;
static int preempt_budget, every_access, spurious_budget, max_nesting = 2;
static int isr_enabled, isr_depth, in_rt;
static ucontext_t main_uc;
static uint64_t now_ctr;
static struct vrt_report R;
static char *main_stack_lo, *main_stack_hi;

/* ---------------------------------------------------------------- shadow state */
struct shadow {
	uintptr_t addr;
	uint32_t gen;
	int8_t wctx;         /* last plain writer, -1 none */
	uint32_t wclk;
	uint32_t rclk[N];    /* plain reads  */
	uint32_t awclk[N];   /* atomic writes */
	uint32_t arclk[N];   /* atomic reads */
	uintptr_t wpc;
};
#define SH_BITS 15
static struct shadow SH[1u << SH_BITS];
static uint32_t gen = 1;

struct aloc {
	uintptr_t addr;
	uint32_t gen;
	vc_t rel;
};
#define NALOC 256
static struct aloc AL[NALOC];

struct buf {
	uintptr_t base;
	size_t len;
	const char *name;
};
static struct buf BUF[8];
static int nbuf;

#define ALOG 8192
static struct vrt_alog {
	uint64_t t;
	int ctx, is_load;
	uintptr_t addr;
} alog[ALOG];
static unsigned nalog;

static struct shadow *sh_get(uintptr_t a)
{
	uint32_t h = (uint32_t)((a * 0x9E3779B97F4A7C15ull) >> (64 - SH_BITS));
	for (unsigned i = 0; i < (1u << SH_BITS); i++) {
		struct shadow *s = &SH[(h + i) & ((1u << SH_BITS) - 1)];
		if (s->gen != gen) {
			memset(s, 0, sizeof *s);
			s->gen = gen;
			s->addr = a;
			s->wctx = -1;
			return s;
		}
		if (s->addr == a)
			return s;
	}
	abort();
}
static struct aloc *al_get(uintptr_t a)
{
	uint32_t h = (uint32_t)((a * 0x9E3779B97F4A7C15ull) >> 56);
	for (unsigned i = 0; i < NALOC; i++) {
		struct aloc *l = &AL[(h + i) % NALOC];
		if (l->gen != gen) {
			memset(l, 0, sizeof *l);
			l->gen = gen;
			l->addr = a;
			return l;
		}
		if (l->addr == a)
			return l;
	}
	abort();
}
static void vc_join(vc_t a, const vc_t b)
{
	for (int i = 0; i < N; i++)
		if (b[i] > a[i])
			a[i] = b[i];
}

static int on_a_stack(uintptr_t a)
{
	if (a >= (uintptr_t)main_stack_lo && a < (uintptr_t)main_stack_hi)
		return 1;
	for (int i = 0; i < N; i++)
		if (stacks[i] && a >= (uintptr_t)stacks[i] && a < (uintptr_t)stacks[i] + STACK_SZ)
			return 1;
	return 0;
}

static const char *where(uintptr_t a, char *tmp, size_t n)
{
	for (int i = 0; i < nbuf; i++)
		if (a >= BUF[i].base - 64 && a < BUF[i].base + BUF[i].len + 64) {
			snprintf(tmp, n, "%s%+ld", BUF[i].name, (long)(a - BUF[i].base));
			return tmp;
		}
	Dl_info di;
	if (dladdr((void *)a, &di) && di.dli_sname) {
		snprintf(tmp, n, "%s+%ld", di.dli_sname, (long)(a - (uintptr_t)di.dli_saddr));
		return tmp;
	}
	snprintf(tmp, n, "heap/static object"); /* raw addresses are not reproducible: keep them out of messages */
	return tmp;
}
static const char *fn_of(uintptr_t pc, char *tmp, size_t n)
{
	Dl_info di;
	if (pc && dladdr((void *)pc, &di) && di.dli_sname)
		snprintf(tmp, n, "%s", di.dli_sname);
	else
		snprintf(tmp, n, "?");
	return tmp;
}

static void report_race(const char *what, int me, const char *other_what, int other, uintptr_t a, uintptr_t pc, uintptr_t opc)
{
	R.races++;
	if (R.first_race[0])
		return;
	char w[96], f1[64], f2[64];
	snprintf(R.first_race, sizeof R.first_race,
		 "%s of %s by context %d in %s() conflicts with an earlier %s by context %d%s%s%s and is not ordered by happens-before", what,
		 where(a, w, sizeof w), me, fn_of(pc, f1, sizeof f1), other_what, other, opc ? " in " : "", opc ? fn_of(opc, f2, sizeof f2) : "",
		 opc ? "()" : "");
}

static void check_bounds(uintptr_t a, size_t n, int is_write, uintptr_t pc)
{
	for (int i = 0; i < nbuf; i++) {
		uintptr_t lo = BUF[i].base, hi = BUF[i].base + BUF[i].len;
		if (a + n > lo - 64 && a < hi + 64 && (a < lo || a + n > hi)) {
			R.oob++;
			if (!R.first_oob[0]) {
				char f[64];
				snprintf(R.first_oob, sizeof R.first_oob, "%s of %zu byte(s) at %s%+ld (the buffer is %zu bytes) in %s()",
					 is_write ? "write" : "read", n, BUF[i].name, (long)(a - lo), BUF[i].len, fn_of(pc, f, sizeof f));
			}
		}
	}
}

/* ---------------------------------------------------------------- plain accesses */
static void plain_access(uintptr_t a, size_t n, int is_write, uintptr_t pc)
{
	R.plain_accesses++;
	now_ctr++;
	if (on_a_stack(a))
		return;
	check_bounds(a, n, is_write, pc);
	struct ctx *me = &C[cur];
	for (size_t k = 0; k < n; k++) {
		struct shadow *s = sh_get(a + k);
		if (s->wctx >= 0 && s->wctx != cur && s->wclk > me->vc[s->wctx])
			report_race(is_write ? "plain write" : "plain read", cur, "plain write", s->wctx, a + k, pc, s->wpc);
		for (int u = 0; u < N; u++) {
			if (u == cur)
				continue;
			if (s->awclk[u] > me->vc[u])
				report_race(is_write ? "plain write" : "plain read", cur, "atomic write", u, a + k, pc, 0);
			if (is_write && s->rclk[u] > me->vc[u])
				report_race("plain write", cur, "plain read", u, a + k, pc, 0);
			if (is_write && s->arclk[u] > me->vc[u])
				report_race("plain write", cur, "atomic read", u, a + k, pc, 0);
		}
		if (is_write) {
			s->wctx = (int8_t)cur;
			s->wclk = me->vc[cur];
			s->wpc = pc;
			memset(s->rclk, 0, sizeof s->rclk);
		} else
			s->rclk[cur] = me->vc[cur];
	}
}

/* an atomic access also conflicts with unordered *plain* accesses of other contexts */
static void atomic_shadow(uintptr_t a, size_t n, int is_write, uintptr_t pc)
{
	if (on_a_stack(a))
		return;
	struct ctx *me = &C[cur];
	for (size_t k = 0; k < n; k++) {
		struct shadow *s = sh_get(a + k);
		if (s->wctx >= 0 && s->wctx != cur && s->wclk > me->vc[s->wctx])
			report_race(is_write ? "atomic write" : "atomic read", cur, "plain write", s->wctx, a + k, pc, s->wpc);
		if (is_write)
			for (int u = 0; u < N; u++)
				if (u != cur && s->rclk[u] > me->vc[u])
					report_race("atomic write", cur, "plain read", u, a + k, pc, 0);
		if (is_write)
			s->awclk[cur] = me->vc[cur];
		else
			s->arclk[cur] = me->vc[cur];
	}
}

/* ---------------------------------------------------------------- scheduling */
static void give_up(void)
{
	R.deadlock = 1;
	if (mode == VRT_THREADS) {
		in_rt = 0;
		setcontext(&main_uc);
	}
	/* ISR mode has no other stack to go to: the harness bounds its own loops */
}

static void init_clock(int id)
{
	memset(C[id].vc, 0, sizeof(vc_t));
	memset(C[id].frel, 0, sizeof(vc_t));
	memset(C[id].pacq, 0, sizeof(vc_t));
	C[id].vc[id] = 1;
}

static void fire(int h)
{
	int prev = cur;
	C[h].fired = 1;
	R.interrupts++;
	isr_depth++;
	cur = h;
	now_ctr++;
	/* successive invocations of one interrupt source (same role, equal priority, cannot nest) are one
	 * logical context: a later invocation is sequenced after the earlier ones */
	if (C[h].role > 0)
		vc_join(C[h].vc, role_clock[C[h].role]);
	in_rt = 0;
	C[h].fn(C[h].arg);
	in_rt = 1;
	now_ctr++;
	C[h].finished = 1;
	if (C[h].role > 0)
		vc_join(role_clock[C[h].role], C[h].vc);
	cur = prev;
	isr_depth--;
}

static void switch_to(int next)
{
	int prev = cur;
	if (next == prev)
		return;
	R.switches++;
	C[next].consecutive = 0;
	cur = next;
	in_rt = 0;
	swapcontext(&C[prev].uc, &C[next].uc);
	in_rt = 1;
}

enum { PT_ATOMIC, PT_PLAIN, PT_EXPLICIT, PT_YIELD };

static void sched_point(int kind)
{
	if (in_rt)
		return;
	in_rt = 1;
	R.points++;
	if (R.points > MAX_POINTS) {
		give_up();
		in_rt = 0;
		return;
	}
	if (mode == VRT_ISR) {
		if (isr_enabled && isr_depth < max_nesting && (kind != PT_PLAIN || every_access)) {
			int el[N], n = 0;
			for (int h = 1; h < nctx; h++)
				if (C[h].used && !C[h].fired && C[h].prio > C[cur].prio)
					el[n++] = h;
			if (n) {
				int k = choose_cb(n + 1);
				if (k)
					fire(el[k - 1]);
			}
		}
	} else if ((kind != PT_PLAIN || every_access) && cur != 0) {
		int el[N], n = 0;
		for (int i = 1; i < nctx; i++)
			if (C[i].used && !C[i].finished && i != cur)
				el[n++] = i;
		C[cur].consecutive++;
		if (n) {
			if (kind == PT_YIELD) {
				switch_to(el[n > 1 ? choose_cb(n) : 0]);
			} else if (C[cur].consecutive > FAIR_B) {
				R.forced_switches++;
				/* round robin, no choice consumed: spinning contexts must not starve the others */
				int nx = el[0];
				for (int i = 0; i < n; i++)
					if (el[i] > cur) {
						nx = el[i];
						break;
					}
				switch_to(nx);
			} else if (preempt_budget != 0) {
				int k = choose_cb(n + 1);
				if (k) {
					if (preempt_budget > 0)
						preempt_budget--;
					switch_to(el[k - 1]);
				}
			}
		}
	}
	in_rt = 0;
}

static void trampoline(int id)
{
	in_rt = 0;
	C[id].fn(C[id].arg);
	in_rt = 1;
	C[id].finished = 1;
	now_ctr++;
	int el[N], n = 0;
	for (int i = 1; i < nctx; i++)
		if (C[i].used && !C[i].finished)
			el[n++] = i;
	if (!n) {
		in_rt = 0;
		setcontext(&main_uc);
	}
	int nx = el[n > 1 ? choose_cb(n) : 0];
	cur = nx;
	C[nx].consecutive = 0;
	R.switches++;
	in_rt = 0;
	setcontext(&C[nx].uc);
}

/* ---------------------------------------------------------------- public API */
void vrt_reset(int m, vrt_choose_fn choose)
{
	if (!main_stack_lo) {
		pthread_attr_t at;
		void *sa;
		size_t ss;
		pthread_getattr_np(pthread_self(), &at);
		pthread_attr_getstack(&at, &sa, &ss);
		pthread_attr_destroy(&at);
		main_stack_lo = sa;
		main_stack_hi = (char *)sa + ss;
	}
	mode = m;
	choose_cb = choose;
	memset(C, 0, sizeof C);
	memset(role_clock, 0, sizeof role_clock);
	memset(&R, 0, sizeof R);
	nctx = 1;
	cur = 0;
	C[0].used = 1;
	init_clock(0);
	preempt_budget = -1;
	every_access = 0;
	spurious_budget = 0;
	max_nesting = 2;
	isr_enabled = 0;
	isr_depth = 0;
	in_rt = 0;
	now_ctr = 0;
	nbuf = 0;
	nalog = 0;
	gen++;
}
void vrt_set_max_nesting(int n) { max_nesting = n; }
void vrt_set_role(int ctx, int role) { C[ctx].role = role; }
void vrt_config(int pb, int ea, int sb)
{
	preempt_budget = pb;
	every_access = ea;
	spurious_budget = sb;
}
int vrt_spawn(vrt_fn fn, void *arg, int prio)
{
	if (nctx >= N)
		abort();
	int id = nctx++;
	C[id].used = 1;
	C[id].fn = fn;
	C[id].arg = arg;
	C[id].prio = prio;
	init_clock(id);
	if (mode == VRT_THREADS) {
		if (!stacks[id])
			stacks[id] = malloc(STACK_SZ);
		getcontext(&C[id].uc);
		C[id].uc.uc_stack.ss_sp = stacks[id];
		C[id].uc.uc_stack.ss_size = STACK_SZ;
		C[id].uc.uc_link = NULL;
		makecontext(&C[id].uc, (void (*)(void))trampoline, 1, id);
	}
	return id;
}
void vrt_run(void)
{
	int el[N], n = 0;
	for (int i = 1; i < nctx; i++)
		if (C[i].used && !C[i].finished)
			el[n++] = i;
	if (!n)
		return;
	in_rt = 1;
	int first = el[n > 1 ? choose_cb(n) : 0];
	cur = first;
	in_rt = 0;
	swapcontext(&main_uc, &C[first].uc);
	in_rt = 0;
	cur = 0;
	vrt_join_all();
}
/* the calling (main) context has waited for every other context, like pthread_join: everything they did
 * happens-before whatever it does next (the quiescence checks of a harness) */
void vrt_join_all(void)
{
	for (int i = 0; i < nctx; i++)
		if (i != cur && C[i].used)
			vc_join(C[cur].vc, C[i].vc);
}
void vrt_isr_enable(int on) { isr_enabled = on; }
void vrt_point(void)
{
	now_ctr++;
	sched_point(PT_EXPLICIT);
}
void vrt_yield(void)
{
	now_ctr++;
	sched_point(PT_YIELD);
}
void vrt_fire_pending(void)
{
	if (mode != VRT_ISR || in_rt)
		return;
	in_rt = 1;
	for (;;) {
		int best = -1;
		for (int h = 1; h < nctx; h++)
			if (C[h].used && !C[h].fired && C[h].prio > C[cur].prio && (best < 0 || C[h].prio > C[best].prio))
				best = h;
		if (best < 0)
			break;
		fire(best);
	}
	in_rt = 0;
}
int vrt_self(void) { return cur; }
int vrt_fired(int c) { return C[c].fired; }
uint64_t vrt_now(void) { return ++now_ctr; }
void vrt_plain_read(const void *p, size_t n)
{
	if (!in_rt)
		plain_access((uintptr_t)p, n, 0, (uintptr_t)__builtin_return_address(0));
}
void vrt_plain_write(const void *p, size_t n)
{
	if (!in_rt)
		plain_access((uintptr_t)p, n, 1, (uintptr_t)__builtin_return_address(0));
}
void vrt_register_buffer(const void *base, size_t len, const char *name)
{
	if (nbuf < 8) {
		BUF[nbuf].base = (uintptr_t)base;
		BUF[nbuf].len = len;
		BUF[nbuf].name = name;
		nbuf++;
	}
}
void vrt_set_main_clock_base(void)
{
	/* everything so far was single-context set-up and happens-before every context: forget it */
	gen++;
	nalog = 0;
}
const struct vrt_report *vrt_report(void) { return &R; }
unsigned vrt_alog_count(void) { return nalog < ALOG ? nalog : ALOG; }
void vrt_alog_get(unsigned i, uint64_t *t, int *ctx, uintptr_t *addr, int *is_load)
{
	*t = alog[i].t;
	*ctx = alog[i].ctx;
	*addr = alog[i].addr;
	*is_load = alog[i].is_load;
}

/* ---------------------------------------------------------------- instrumentation ABI */
void __tsan_init(void) {}
void __tsan_func_entry(void *pc) { (void)pc; }
void __tsan_func_exit(void) {}
void __tsan_vptr_update(void **p, void *v) { (void)p; (void)v; }
void __tsan_vptr_read(void **p) { (void)p; }

#define RW(n)                                                                                         \
	void __tsan_read##n(void *a)                                                                  \
	{                                                                                             \
		if (in_rt)                                                                            \
			return;                                                                       \
		sched_point(PT_PLAIN);                                                                \
		plain_access((uintptr_t)a, n, 0, (uintptr_t)__builtin_return_address(0));             \
	}                                                                                             \
	void __tsan_write##n(void *a)                                                                 \
	{                                                                                             \
		if (in_rt)                                                                            \
			return;                                                                       \
		sched_point(PT_PLAIN);                                                                \
		plain_access((uintptr_t)a, n, 1, (uintptr_t)__builtin_return_address(0));             \
	}                                                                                             \
	void __tsan_unaligned_read##n(void *a) { __tsan_read##n(a); }                                 \
	void __tsan_unaligned_write##n(void *a) { __tsan_write##n(a); }
RW(1) RW(2) RW(4) RW(8) RW(16)
void __tsan_read_range(void *a, unsigned long n)
{
	if (!in_rt)
		plain_access((uintptr_t)a, n, 0, (uintptr_t)__builtin_return_address(0));
}
void __tsan_write_range(void *a, unsigned long n)
{
	if (!in_rt)
		plain_access((uintptr_t)a, n, 1, (uintptr_t)__builtin_return_address(0));
}

static int has_acq(int mo) { return mo == 1 || mo == 2 || mo == 4 || mo == 5; }
static int has_rel(int mo) { return mo == 3 || mo == 4 || mo == 5; }

/* bookkeeping around one atomic operation on `a`; the operation itself is done by the caller
 * between pre and post (single OS thread: trivially atomic) */
static void atomic_pre(uintptr_t a, size_t n, int mo, int is_load, int is_store, uintptr_t pc)
{
	sched_point(PT_ATOMIC); /* the schedule decides who runs BEFORE the operation takes effect */
	R.atomic_ops++;
	if (mo >= 0 && mo < 6)
		R.mo_hist[mo]++;
	now_ctr++;
	if (nalog < ALOG) {
		alog[nalog].t = now_ctr;
		alog[nalog].ctx = cur;
		alog[nalog].addr = a;
		alog[nalog].is_load = is_load;
	}
	nalog++;
	atomic_shadow(a, n, !is_load, pc);
	struct ctx *me = &C[cur];
	struct aloc *l = al_get(a);
	if (!is_store) { /* load or read-modify-write: acquire side */
		if (has_acq(mo))
			vc_join(me->vc, l->rel);
		else
			vc_join(me->pacq, l->rel);
	}
	if (!is_load) { /* store or read-modify-write: release side */
		if (is_store) { /* a plain store starts a new release sequence */
			if (has_rel(mo))
				memcpy(l->rel, me->vc, sizeof(vc_t));
			else
				memcpy(l->rel, me->frel, sizeof(vc_t));
		} else { /* RMW continues the release sequences already there */
			if (has_rel(mo))
				vc_join(l->rel, me->vc);
			else
				vc_join(l->rel, me->frel);
		}
		me->vc[cur]++;
	}
}

#define ATOMICS(bits, T)                                                                                            \
	T __tsan_atomic##bits##_load(const volatile T *a, int mo)                                                   \
	{                                                                                                           \
		atomic_pre((uintptr_t)a, sizeof(T), mo, 1, 0, (uintptr_t)__builtin_return_address(0));              \
		return *a;                                                                                          \
	}                                                                                                           \
	void __tsan_atomic##bits##_store(volatile T *a, T v, int mo)                                                \
	{                                                                                                           \
		atomic_pre((uintptr_t)a, sizeof(T), mo, 0, 1, (uintptr_t)__builtin_return_address(0));              \
		*a = v;                                                                                             \
	}                                                                                                           \
	T __tsan_atomic##bits##_exchange(volatile T *a, T v, int mo)                                                \
	{                                                                                                           \
		atomic_pre((uintptr_t)a, sizeof(T), mo, 0, 0, (uintptr_t)__builtin_return_address(0));              \
		T o = *a;                                                                                           \
		*a = v;                                                                                             \
		return o;                                                                                           \
	}                                                                                                           \
	ATOMIC_RMW(bits, T, fetch_add, o + v)                                                                       \
	ATOMIC_RMW(bits, T, fetch_sub, o - v)                                                                       \
	ATOMIC_RMW(bits, T, fetch_and, o & v)                                                                       \
	ATOMIC_RMW(bits, T, fetch_or, o | v)                                                                        \
	ATOMIC_RMW(bits, T, fetch_xor, o ^ v)                                                                       \
	ATOMIC_RMW(bits, T, fetch_nand, ~(o & v))                                                                   \
	int __tsan_atomic##bits##_compare_exchange_strong(volatile T *a, T *c, T v, int mo, int fmo)                \
	{                                                                                                           \
		return cas((uintptr_t)a, sizeof(T), mo, fmo, 0, (uintptr_t)__builtin_return_address(0))            \
			       ? (*a == *c ? (*a = v, 1) : (*c = *a, 0))                                            \
			       : (*c = *a, 0);                                                                      \
	}                                                                                                           \
	int __tsan_atomic##bits##_compare_exchange_weak(volatile T *a, T *c, T v, int mo, int fmo)                  \
	{                                                                                                           \
		return cas((uintptr_t)a, sizeof(T), mo, fmo, 1, (uintptr_t)__builtin_return_address(0))            \
			       ? (*a == *c ? (*a = v, 1) : (*c = *a, 0))                                            \
			       : (*c = *a, 0);                                                                      \
	}                                                                                                           \
	T __tsan_atomic##bits##_compare_exchange_val(volatile T *a, T c, T v, int mo, int fmo)                      \
	{                                                                                                           \
		cas((uintptr_t)a, sizeof(T), mo, fmo, 0, (uintptr_t)__builtin_return_address(0));                  \
		T o = *a;                                                                                           \
		if (o == c)                                                                                         \
			*a = v;                                                                                     \
		return o;                                                                                           \
	}

#define ATOMIC_RMW(bits, T, name, expr)                                                                             \
	T __tsan_atomic##bits##_##name(volatile T *a, T v, int mo)                                                  \
	{                                                                                                           \
		atomic_pre((uintptr_t)a, sizeof(T), mo, 0, 0, (uintptr_t)__builtin_return_address(0));              \
		T o = *a;                                                                                           \
		*a = (T)(expr);                                                                                     \
		return o;                                                                                           \
	}

/* returns 0 if this weak CAS is to fail spuriously (a schedule choice, bounded per run).
 * Happens-before is accounted as a read-modify-write with the success order (an over-approximation
 * of the edges on the failure path that can only hide a race on a failed CAS, never invent one). */
static int cas(uintptr_t a, size_t n, int mo, int fmo, int weak, uintptr_t pc)
{
	(void)fmo;
	atomic_pre(a, n, mo, 0, 0, pc);
	if (weak && spurious_budget > 0 && !in_rt) {
		in_rt = 1;
		int k = choose_cb(2);
		in_rt = 0;
		if (k) {
			spurious_budget--;
			R.spurious_cas++;
			return 0;
		}
	}
	return 1;
}

ATOMICS(8, uint8_t)
ATOMICS(16, uint16_t)
ATOMICS(32, uint32_t)
ATOMICS(64, uint64_t)

void __tsan_atomic_thread_fence(int mo)
{
	struct ctx *me = &C[cur];
	if (mo >= 0 && mo < 6)
		R.mo_hist[mo]++;
	if (has_acq(mo))
		vc_join(me->vc, me->pacq);
	if (has_rel(mo))
		memcpy(me->frel, me->vc, sizeof(vc_t));
}
void __tsan_atomic_signal_fence(int mo) { (void)mo; /* orders nothing between threads */ }
