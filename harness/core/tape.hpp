// tape.hpp - the one abstraction every harness is written against.
//
// A *case* is a pure function of a "choice tape": a finite sequence of
// non-negative integers consumed one per decision.  When the tape is exhausted
// every further decision is 0, so 0 must always be the simplest / "stop" /
// "do not pre-empt" choice.  The same h_run() is driven by
//   - rapidcheck (random tapes, shrinking)          engine.cpp  mode rc
//   - the bounded-exhaustive odometer over the tape engine.cpp  mode enum
//   - libFuzzer (bytes decoded into a tape)         fuzz_entry.cpp
//   - a replay file (the tape written out)          engine.cpp  mode replay
// No other source of randomness, no clock and no address may influence a case.
#pragma once
#include <cstdarg>
#include <cstdint>
#include <cstdio>
#include <cstring>
#include <map>
#include <string>
#include <vector>

struct Tape {
	// input: either raw 32-bit values or a byte string (libFuzzer)
	const uint32_t *raw = nullptr;
	size_t nraw = 0;
	const uint8_t *bytes = nullptr;
	size_t nbytes = 0, bpos = 0;
	bool from_bytes = false;
	bool enumerating = false; // harnesses may pick reduced alphabets
	// record of what was consumed
	std::vector<uint32_t> taken;
	std::vector<uint32_t> bf; // branching factor (0 = 2^32)
	FILE *trace = nullptr;    // optional: every choice is appended here as it is taken (crash triage)

	uint32_t next_raw(uint64_t n)
	{
		if (!from_bytes) {
			size_t i = taken.size();
			return i < nraw ? raw[i] : 0;
		}
		unsigned w = n <= 256 ? 1 : n <= 65536 ? 2 : 4;
		uint32_t v = 0;
		for (unsigned k = 0; k < w; k++) {
			uint32_t b = bpos < nbytes ? bytes[bpos] : 0;
			bpos++;
			v |= b << (8 * k);
		}
		return v;
	}
	// uniform choice in [0, n); n >= 1
	uint32_t choose(uint64_t n)
	{
		uint32_t r = next_raw(n);
		uint32_t v = n >= (1ull << 32) ? r : (uint32_t)(r % n);
		taken.push_back(v);
		bf.push_back(n >= (1ull << 32) ? 0 : (uint32_t)n);
		if (trace) {
			fprintf(trace, "%u\n", v);
			fflush(trace);
		}
		return v;
	}
	bool flip() { return choose(2) != 0; }
	// inclusive range, lo is the default
	int64_t range(int64_t lo, int64_t hi) { return lo + (int64_t)choose((uint64_t)(hi - lo) + 1); }
	uint32_t u32() { return choose(1ull << 32); }
	// weighted choice: index i with probability w[i]/sum; index 0 is default
	uint32_t weighted(std::initializer_list<uint32_t> w)
	{
		uint32_t sum = 0;
		for (auto x : w)
			sum += x;
		if (enumerating) { // enumerate alternatives, not weights
			uint32_t nz = 0;
			for (auto x : w)
				if (x)
					nz++;
			uint32_t k = choose(nz), i = 0;
			for (auto x : w) {
				if (x && k-- == 0)
					return i;
				i++;
			}
			return 0;
		}
		uint32_t r = choose(sum), i = 0;
		for (auto x : w) {
			if (r < x)
				return i;
			r -= x;
			i++;
		}
		return 0;
	}
	bool exhausted() const
	{
		return from_bytes ? bpos >= nbytes : taken.size() >= nraw;
	}
};

struct Ctx {
	Tape &t;
	std::map<std::string, std::string> *params;
	bool want_log = false;
	bool failed = false;
	bool nontrivial = false;
	std::string failmsg;
	std::string log;
	std::vector<const char *> classes; // string literals only
	std::vector<std::pair<const char *, unsigned long>> sums; // additive counters (string literal names)

	explicit Ctx(Tape &tape) : t(tape), params(nullptr) {}

	void cls(const char *name)
	{
		for (auto c : classes)
			if (c == name || !strcmp(c, name))
				return;
		classes.push_back(name);
	}
	void sum(const char *name, unsigned long n)
	{
		for (auto &kv : sums)
			if (kv.first == name || !strcmp(kv.first, name)) {
				kv.second += n;
				return;
			}
		sums.push_back({ name, n });
	}
	void note(const char *fmt, ...) __attribute__((format(printf, 2, 3)))
	{
		if (!want_log)
			return;
		char buf[1024];
		va_list ap;
		va_start(ap, fmt);
		vsnprintf(buf, sizeof buf, fmt, ap);
		va_end(ap);
		log += buf;
		log += '\n';
	}
	void fail(const char *fmt, ...) __attribute__((format(printf, 2, 3)))
	{
		if (failed)
			return;
		char buf[1024];
		va_list ap;
		va_start(ap, fmt);
		vsnprintf(buf, sizeof buf, fmt, ap);
		va_end(ap);
		failed = true;
		failmsg.clear();
		for (const char *p = buf; *p; p++) { // keep every message on one line (it goes into replay files and reports)
			unsigned char ch = (unsigned char)*p;
			if (ch == '\n')
				failmsg += "\\n";
			else if (ch < 0x20 || ch >= 0x7f) {
				char e[8];
				snprintf(e, sizeof e, "\\x%02x", ch);
				failmsg += e;
			} else
				failmsg += (char)ch;
		}
		if (want_log) {
			log += "FAIL: ";
			log += failmsg;
			log += '\n';
		}
	}
	// generator feature level (see lib/vlib.py FEAT): replay files saved before a feature existed carry a lower
	// level (or none = 0) and are decoded the way they were found
	bool feat(long level) const { return param("feat", 0) >= level; }
	long param(const char *k, long def) const
	{
		if (!params)
			return def;
		auto it = params->find(k);
		return it == params->end() ? def : strtol(it->second.c_str(), nullptr, 0);
	}
};

#define CHECK(c, cond, ...)                  \
	do {                                 \
		if (!(cond)) {               \
			(c).fail(__VA_ARGS__); \
		}                            \
	} while (0)

// optional: a harness may provide its own exhaustive / multi-threaded loop (engine mode 'custom').
// It reports measured counts; on failure it returns a tape that reproduces the failure through h_run.
struct CustomOut {
	unsigned long evaluations = 0, nontrivial = 0, distinct = 0;
	bool exhaustive = false;
	std::map<std::string, unsigned long> classes;
	std::vector<std::string> samples; // human-readable cases
	bool failed = false;
	std::vector<uint32_t> fail_tape;
	bool fail_enumerating = false;                     // the tape is to be read in enumerating mode
	std::map<std::string, std::string> fail_params;    // extra params the replay needs
	std::string failmsg;
};
void h_custom(long worker, long workers, long seed, std::map<std::string, std::string> &params, CustomOut &o)
	__attribute__((weak));

// provided by core/engine.cpp (absent in the libFuzzer build): see there
uint32_t *engine_custom_case(size_t n, const char *extra_params) __attribute__((weak));

// every harness defines these two
extern const char *H_NAME;
void h_run(Ctx &c);
