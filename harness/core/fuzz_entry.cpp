// fuzz_entry.cpp - libFuzzer entry: the input bytes are the choice tape (1/2/4 bytes per choice depending on
// its branching factor), the harness' h_run() is the target, its oracle is the crash condition.
//   VERIF_FUZZ_PARAMS="k=v,k=v"   harness params
//   VERIF_FUZZ_OUT=prefix         where statistics (at exit) and an in-process failure (.fail, replay format) go
//   VERIF_FUZZ_TRACE=file         append every choice taken to this file as it is taken (used by the driver to turn
//                                 a crash artifact into a replay file: the run may die half way)
#include <cstdlib>
#include <fstream>
#include <sstream>
#include <unordered_set>

#include "tape.hpp"

static std::map<std::string, std::string> g_params;
static std::string g_out;
static FILE *g_trace;
static unsigned long g_eval, g_nt;
static std::unordered_set<uint64_t> g_distinct;
static std::map<std::string, unsigned long> g_classes;
static bool g_init;
static std::string g_sample;

static uint64_t fnv(const std::vector<uint32_t> &v)
{
	uint64_t h = 1469598103934665603ull;
	for (uint32_t x : v)
		for (int k = 0; k < 4; k++) {
			h ^= (x >> (8 * k)) & 0xff;
			h *= 1099511628211ull;
		}
	return h;
}
static std::string jesc(const std::string &s)
{
	std::string o;
	for (unsigned char ch : s) {
		if (ch == '"' || ch == '\\') { o += '\\'; o += ch; }
		else if (ch == '\n') o += "\\n";
		else if (ch < 0x20 || ch >= 0x7f) { char b[8]; snprintf(b, sizeof b, "\\u%04x", ch); o += b; }
		else o += ch;
	}
	return o;
}
static void write_stats()
{
	if (g_out.empty())
		return;
	std::ofstream f(g_out + ".stats.json.tmp");
	f << "{\"harness\":\"" << H_NAME << "\",\"mode\":\"fuzz\",\"evaluations\":" << g_eval << ",\"nontrivial\":" << g_nt
	  << ",\"distinct_direct\":" << g_distinct.size() << ",\"exhaustive\":false,\"classes\":{";
	bool first = true;
	for (auto &kv : g_classes) {
		f << (first ? "" : ",") << "\"" << jesc(kv.first) << "\":" << kv.second;
		first = false;
	}
	f << "},\"samples\":[{\"pick\":\"libFuzzer\",\"case\":\"" << jesc(g_sample) << "\"}],\"failed\":false}\n";
	f.close();
	rename((g_out + ".stats.json.tmp").c_str(), (g_out + ".stats.json").c_str());
}
static void init()
{
	g_init = true;
	if (const char *p = getenv("VERIF_FUZZ_PARAMS")) {
		std::stringstream ss(p);
		std::string kv;
		while (std::getline(ss, kv, ',')) {
			auto eq = kv.find('=');
			if (eq != std::string::npos)
				g_params[kv.substr(0, eq)] = kv.substr(eq + 1);
		}
	}
	if (const char *p = getenv("VERIF_FUZZ_OUT"))
		g_out = p;
	if (const char *p = getenv("VERIF_FUZZ_TRACE"))
		g_trace = fopen(p, "w");
	atexit(write_stats);
}

extern "C" int LLVMFuzzerTestOneInput(const uint8_t *data, size_t size)
{
	if (!g_init)
		init();
	Tape t;
	t.from_bytes = true;
	t.bytes = data;
	t.nbytes = size;
	t.trace = g_trace;
	Ctx c(t);
	c.params = &g_params;
	c.want_log = g_trace != nullptr;
	h_run(c);
	g_eval++;
	for (auto k : c.classes)
		g_classes[k]++;
	if (c.nontrivial) {
		g_nt++;
		if (g_distinct.size() < 4000000)
			g_distinct.insert(fnv(t.taken));
	}
	if (g_eval == 1 || (c.nontrivial && g_sample.size() < 20)) {
		Tape t2;
		t2.from_bytes = true;
		t2.bytes = data;
		t2.nbytes = size;
		Ctx c2(t2);
		c2.params = &g_params;
		c2.want_log = true;
		h_run(c2);
		g_sample = c2.log.substr(0, 1500);
	}
	if (c.failed) {
		if (!g_out.empty()) {
			std::ofstream f(g_out + ".fail");
			f << "# librfn-verif replay (found by libFuzzer)\nharness " << H_NAME << "\n";
			for (auto &kv : g_params)
				f << "param " << kv.first << "=" << kv.second << "\n";
			f << "tape " << t.taken.size();
			for (auto v : t.taken)
				f << ' ' << v;
			f << "\n# message: " << c.failmsg << "\n";
		}
		write_stats();
		fprintf(stderr, "ORACLE-FAIL: %s\n", c.failmsg.c_str());
		__builtin_trap();
	}
	return 0;
}
