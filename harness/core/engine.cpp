// engine.cpp - drives a harness' h_run() from rapidcheck, from the bounded
// exhaustive odometer, or from a replay file.  Compiled once (it is the only
// translation unit that includes rapidcheck) and linked with every harness.
#include <rapidcheck.h>

#include <algorithm>
#include <csignal>
#include <ctime>
#include <cstdlib>
#include <fcntl.h>
#include <fstream>
#include <sstream>
#include <sys/time.h>
#include <unistd.h>
#include <unordered_set>

#include "tape.hpp"

extern "C" void __sanitizer_set_death_callback(void (*)(void)) __attribute__((weak));

static std::map<std::string, std::string> g_params;
static std::string g_out;
static std::string g_journal; // if set: the raw tape of every case is written here before the case runs (crash triage of last resort)

// ---------------------------------------------------------------- crash dump
// The case being run, kept where a signal handler can reach it.
static Tape *volatile g_cur;
static Tape g_custom_tape;      // custom stages publish "the case being evaluated" here, so that a crash can be replayed
static char g_hdr_custom[2304];
static volatile unsigned long g_case_no, g_alarm_seen_case = ~0ul;
static char g_crash_path[512];
static char g_hdr[2048]; // "harness ..\nparam ..\n" prepared in advance

static void wr(int fd, const char *s) { (void)!write(fd, s, strlen(s)); }
static void wr_u(int fd, unsigned long v)
{
	char b[24];
	int i = 23;
	b[i] = 0;
	do {
		b[--i] = '0' + v % 10;
		v /= 10;
	} while (v);
	wr(fd, b + i);
}
static void dump_current(const char *why)
{
	static volatile int once;
	if (once || !g_crash_path[0])
		return;
	once = 1;
	int fd = open(g_crash_path, O_WRONLY | O_CREAT | O_TRUNC, 0644);
	if (fd < 0)
		return;
	wr(fd, "# librfn-verif replay (process died: ");
	wr(fd, why);
	wr(fd, ")\n");
	Tape *t = g_cur;
	wr(fd, t == &g_custom_tape ? g_hdr_custom : g_hdr);
	wr(fd, "tape ");
	size_t n = t ? t->taken.size() : 0;
	wr_u(fd, n);
	for (size_t i = 0; i < n; i++) {
		wr(fd, " ");
		wr_u(fd, t->taken[i]);
	}
	wr(fd, "\n");
	close(fd);
}
static void on_signal(int sig)
{
	dump_current(sig == SIGABRT ? "SIGABRT (assert/abort)" : sig == SIGFPE ? "SIGFPE" :
		     sig == SIGSEGV ? "SIGSEGV" : sig == SIGILL ? "SIGILL" : "signal");
	signal(sig, SIG_DFL);
	raise(sig);
}
static void on_death(void) { dump_current("sanitizer report"); }
static void on_alarm(int)
{
	// same case still running two ticks in a row => treat as a hang
	if (g_cur && g_alarm_seen_case == g_case_no) {
		dump_current("hang (no progress for >= one watchdog period)");
		wr(1, "REPLAY-FAIL: hang (the case made no progress for a whole watchdog period)\n");
		_exit(4);
	}
	g_alarm_seen_case = g_case_no;
}
static void catch_signal(int sig)
{
	struct sigaction sa;
	memset(&sa, 0, sizeof sa);
	sa.sa_handler = on_signal;
	sa.sa_flags = SA_ONSTACK | SA_NODEFER; // the case may have died on an overflowed or smashed (coroutine) stack
	sigaction(sig, &sa, nullptr);
}
static void install_handlers(int watchdog_s)
{
	static char altstack[1 << 16];
	stack_t ss;
	ss.ss_sp = altstack;
	ss.ss_size = sizeof altstack;
	ss.ss_flags = 0;
	sigaltstack(&ss, nullptr);
	catch_signal(SIGABRT);
	catch_signal(SIGILL);
	if (__sanitizer_set_death_callback)
		__sanitizer_set_death_callback(on_death);
	else {
		catch_signal(SIGSEGV);
		catch_signal(SIGBUS);
		catch_signal(SIGFPE);
	}
	if (watchdog_s > 0) {
		signal(SIGALRM, on_alarm);
		struct itimerval it = { { watchdog_s, 0 }, { watchdog_s, 0 } };
		setitimer(ITIMER_REAL, &it, nullptr);
	}
}

// ---------------------------------------------------------------- bookkeeping
static uint64_t fnv(const std::vector<uint32_t> &v)
{
	uint64_t h = 1469598103934665603ull;
	for (uint32_t x : v)
		for (int k = 0; k < 4; k++) {
			h ^= (x >> (8 * k)) & 0xff;
			h *= 1099511628211ull;
		}
	return h;
}

struct Stats {
	unsigned long evaluations = 0, nontrivial = 0, tape_sum = 0, tape_max = 0;
	std::map<std::string, unsigned long> classes;
	std::map<std::string, unsigned long> sums;
	std::unordered_set<uint64_t> distinct;
	size_t distinct_cap = 6000000;
	bool distinct_capped = false;
	// sample candidates (taken tapes)
	std::vector<uint32_t> s_first, s_first_nt, s_longest_nt, s_minhash_nt;
	uint64_t minhash = ~0ull;
	bool have_first = false, have_first_nt = false;
} g_st;

static bool g_counting = true;
static std::vector<uint32_t> g_lastfail;
static std::string g_lastfail_msg;
static bool g_have_fail = false;

struct CaseOut {
	Tape t;
	std::vector<const char *> classes;
	std::vector<std::pair<const char *, unsigned long>> sums;
	bool nontrivial = false, failed = false;
	std::string msg, log;
};

static void execute(const uint32_t *raw, size_t n, bool enumerating, bool want_log, CaseOut &o)
{
	if (!g_journal.empty()) {
		FILE *jf = fopen(g_journal.c_str(), "w");
		if (jf) {
			fprintf(jf, "# librfn-verif replay (journalled before the case ran; the process died in it)\n%s%stape %zu", g_hdr,
				enumerating ? "" : "", n);
			for (size_t i = 0; i < n; i++)
				fprintf(jf, " %u", raw[i]);
			fprintf(jf, "\n");
			fclose(jf);
		}
	}
	o.t = Tape();
	o.t.raw = raw;
	o.t.nraw = n;
	o.t.enumerating = enumerating;
	Ctx c(o.t);
	c.params = &g_params;
	c.want_log = want_log;
	g_case_no++;
	g_cur = &o.t;
	h_run(c);
	g_cur = nullptr;
	o.classes = c.classes;
	o.sums = c.sums;
	o.nontrivial = c.nontrivial;
	o.failed = c.failed;
	o.msg = c.failmsg;
	o.log = c.log;
}

static void account(const CaseOut &o)
{
	const Tape &t = o.t;
	g_st.evaluations++;
	g_st.tape_sum += t.taken.size();
	g_st.tape_max = std::max<unsigned long>(g_st.tape_max, t.taken.size());
	for (auto k : o.classes)
		g_st.classes[k]++;
	for (auto &kv : o.sums)
		g_st.sums[kv.first] += kv.second;
	if (!g_st.have_first) {
		g_st.have_first = true;
		g_st.s_first = t.taken;
	}
	if (o.nontrivial) {
		g_st.nontrivial++;
		uint64_t h = fnv(t.taken);
		if (g_st.distinct.size() < g_st.distinct_cap)
			g_st.distinct.insert(h);
		else
			g_st.distinct_capped = true;
		if (!g_st.have_first_nt) {
			g_st.have_first_nt = true;
			g_st.s_first_nt = t.taken;
		}
		if (t.taken.size() > g_st.s_longest_nt.size())
			g_st.s_longest_nt = t.taken;
		if (h < g_st.minhash) {
			g_st.minhash = h;
			g_st.s_minhash_nt = t.taken;
		}
	}
}

static void note_failure(const CaseOut &o)
{
	g_lastfail = o.t.taken;
	g_lastfail_msg = o.msg;
	g_have_fail = true;
}

static bool run_tape(const uint32_t *raw, size_t n, bool enumerating, bool want_log, std::string *log_out,
		     std::string *msg_out, Tape *tape_out)
{
	CaseOut o;
	execute(raw, n, enumerating, want_log, o);
	if (g_counting && !want_log)
		account(o);
	if (o.failed && !want_log)
		note_failure(o);
	if (log_out)
		*log_out = o.log;
	if (msg_out)
		*msg_out = o.msg;
	if (tape_out)
		*tape_out = o.t;
	return !o.failed;
}

static std::string jesc(const std::string &s)
{
	std::string o;
	for (unsigned char ch : s) {
		if (ch == '"' || ch == '\\') {
			o += '\\';
			o += ch;
		} else if (ch == '\n')
			o += "\\n";
		else if (ch == '\t')
			o += "\\t";
		else if (ch < 0x20 || ch >= 0x7f) {
			char b[8];
			snprintf(b, sizeof b, "\\u%04x", ch);
			o += b;
		} else
			o += ch;
	}
	return o;
}

static std::string header_text()
{
	std::string h = std::string("harness ") + H_NAME + "\n";
	for (auto &kv : g_params)
		h += "param " + kv.first + "=" + kv.second + "\n";
	return h;
}

static void write_replay(const std::string &path, const std::vector<uint32_t> &tape, const std::string &msg,
			 const std::string &log, bool enumerating)
{
	std::ofstream f(path);
	f << "# librfn-verif replay\n" << header_text();
	if (enumerating)
		f << "enumerating 1\n";
	f << "tape " << tape.size();
	for (auto v : tape)
		f << ' ' << v;
	f << "\n# message: " << msg << "\n";
	std::istringstream ls(log);
	std::string line;
	while (std::getline(ls, line))
		f << "# " << line << "\n";
}

static std::string sample_json(const std::vector<uint32_t> &tape, bool enumerating, const char *which)
{
	std::string log;
	run_tape(tape.data(), tape.size(), enumerating, true, &log, nullptr, nullptr);
	if (log.size() > 1800)
		log = log.substr(0, 1800) + "\n...(truncated)";
	std::ostringstream o;
	o << "{\"pick\":\"" << which << "\",\"tape_len\":" << tape.size() << ",\"case\":\"" << jesc(log) << "\"}";
	return o.str();
}

static void write_stats(const char *mode, bool exhaustive, bool enumerating, unsigned long extra_runs)
{
	bool save = g_counting;
	g_counting = false;
	std::ofstream f(g_out + ".stats.json.tmp");
	f << "{\"harness\":\"" << H_NAME << "\",\"mode\":\"" << mode << "\",\"evaluations\":" << g_st.evaluations
	  << ",\"nontrivial\":" << g_st.nontrivial << ",\"distinct_local\":" << g_st.distinct.size()
	  << ",\"distinct_capped\":" << (g_st.distinct_capped ? "true" : "false")
	  << ",\"exhaustive\":" << (exhaustive ? "true" : "false") << ",\"unassigned_probe_runs\":" << extra_runs
	  << ",\"tape_mean\":" << (g_st.evaluations ? (double)g_st.tape_sum / g_st.evaluations : 0.0)
	  << ",\"tape_max\":" << g_st.tape_max << ",\"classes\":{";
	bool first = true;
	for (auto &kv : g_st.classes) {
		f << (first ? "" : ",") << "\"" << jesc(kv.first) << "\":" << kv.second;
		first = false;
	}
	f << "},\"sums\":{";
	first = true;
	for (auto &kv : g_st.sums) {
		f << (first ? "" : ",") << "\"" << jesc(kv.first) << "\":" << kv.second;
		first = false;
	}
	f << "},\"samples\":[";
	first = true;
	auto emit = [&](const std::vector<uint32_t> &t, bool have, const char *w) {
		if (!have)
			return;
		f << (first ? "" : ",") << sample_json(t, enumerating, w);
		first = false;
	};
	emit(g_st.s_first, g_st.have_first, "first");
	emit(g_st.s_first_nt, g_st.have_first_nt, "first-nontrivial");
	emit(g_st.s_minhash_nt, g_st.have_first_nt, "min-hash-nontrivial");
	emit(g_st.s_longest_nt, g_st.have_first_nt, "longest-nontrivial");
	f << "],\"failed\":" << (g_have_fail ? "true" : "false");
	if (g_have_fail)
		f << ",\"failmsg\":\"" << jesc(g_lastfail_msg) << "\"";
	f << "}\n";
	f.close();
	rename((g_out + ".stats.json.tmp").c_str(), (g_out + ".stats.json").c_str());
	// hashes for the cross-worker union
	FILE *hf = fopen((g_out + ".hashes").c_str(), "wb");
	if (hf) {
		std::vector<uint64_t> v(g_st.distinct.begin(), g_st.distinct.end());
		if (!v.empty())
			fwrite(v.data(), 8, v.size(), hf);
		fclose(hf);
	}
	g_counting = save;
}

static void write_failure(bool enumerating)
{
	g_counting = false;
	std::string log, msg;
	std::vector<uint32_t> t = g_lastfail;
	run_tape(t.data(), t.size(), enumerating, true, &log, &msg, nullptr);
	write_replay(g_out + ".fail", t, g_lastfail_msg, log, enumerating);
}

// A custom stage announces the case it is about to evaluate: a tape of n values (returned, to be filled in / updated
// in place by the caller) that reproduces it through h_run, plus extra "param k=v\n" lines the replay needs.
uint32_t *engine_custom_case(size_t n, const char *extra_params)
{
	g_cur = nullptr;
	g_custom_tape.taken.assign(n, 0);
	snprintf(g_hdr_custom, sizeof g_hdr_custom, "%s%s", g_hdr, extra_params ? extra_params : "");
	g_cur = &g_custom_tape;
	return g_custom_tape.taken.data();
}

// ---------------------------------------------------------------- modes
static int mode_rc(long seed, long cases, long maxsize, long len)
{
	char env[256];
	snprintf(env, sizeof env, "seed=%ld max_success=%ld max_size=%ld", seed, cases, maxsize);
	setenv("RC_PARAMS", env, 1);
	double k = std::max(1.0, (double)len / (double)maxsize);
	auto gen = rc::gen::scale(k, rc::gen::container<std::vector<uint32_t>>(rc::gen::arbitrary<uint32_t>()));
	// shrinking is bounded by wall time (it only decides how small the reported case is, never whether one is
	// reported): once the budget is spent every further shrink candidate is declared passing without being run,
	// so rapidcheck settles on the smallest failing tape found so far
	time_t first_fail_at = 0;
	long shrink_budget = getenv("VERIF_SHRINK_BUDGET") ? atol(getenv("VERIF_SHRINK_BUDGET")) : 60;
	bool ok = rc::check(H_NAME, [&]() {
		std::vector<uint32_t> raw = *gen;
		if (first_fail_at && time(nullptr) - first_fail_at > shrink_budget)
			return;
		bool pass = run_tape(raw.data(), raw.size(), false, false, nullptr, nullptr, nullptr);
		if (!pass) {
			g_counting = false; // everything after the first failure is shrinking
			if (!first_fail_at)
				first_fail_at = time(nullptr);
		}
		RC_ASSERT(pass);
	});
	if (!ok && g_have_fail)
		write_failure(false);
	write_stats("rc", false, false, 0);
	return ok ? 0 : 1;
}

static int mode_enum(long depth, long worker, long workers, long split, long maxruns)
{
	std::vector<uint32_t> prefix;
	std::vector<uint32_t> last_split;
	bool have_last = false;
	long subtree = -1;
	unsigned long runs = 0, probes = 0;
	bool complete = false;
	for (;;) {
		CaseOut o;
		execute(prefix.data(), prefix.size(), true, false, o);
		Tape &t = o.t;
		std::vector<uint32_t> sp(t.taken.begin(), t.taken.begin() + std::min<size_t>(t.taken.size(), split));
		if (!have_last || sp != last_split) {
			subtree++;
			last_split = sp;
			have_last = true;
		}
		bool mine = workers <= 1 || (subtree % workers) == worker;
		size_t k;
		if (mine) {
			account(o);
			runs++;
			if (o.failed) {
				note_failure(o);
				write_failure(true);
				write_stats("enum", false, true, probes);
				return 1;
			}
			k = std::min<size_t>(t.taken.size(), depth);
		} else {
			probes++;
			k = std::min<size_t>(t.taken.size(), std::min<long>(split, depth));
		}
		// odometer step
		long i = (long)k - 1;
		while (i >= 0) {
			uint64_t b = t.bf[i] ? t.bf[i] : (1ull << 32);
			if ((uint64_t)t.taken[i] + 1 < b)
				break;
			i--;
		}
		if (i < 0) {
			complete = true;
			break;
		}
		prefix.assign(t.taken.begin(), t.taken.begin() + i);
		prefix.push_back(t.taken[i] + 1);
		if (maxruns > 0 && (long)runs >= maxruns)
			break;
	}
	write_stats("enum", complete, true, probes);
	return 0;
}

// seed corpus for the libFuzzer stage: byte encodings of non-trivial random cases (pure function of the seed)
static int mode_corpus(long seed, long cases, long maxsize, long len, const std::string &dir, long maxfiles)
{
	char env[256];
	snprintf(env, sizeof env, "seed=%ld max_success=%ld max_size=%ld", seed, cases, maxsize);
	setenv("RC_PARAMS", env, 1);
	double k = std::max(1.0, (double)len / (double)maxsize);
	auto gen = rc::gen::scale(k, rc::gen::container<std::vector<uint32_t>>(rc::gen::arbitrary<uint32_t>()));
	long written = 0;
	rc::check(H_NAME, [&]() {
		std::vector<uint32_t> raw = *gen;
		CaseOut o;
		execute(raw.data(), raw.size(), false, false, o);
		if (o.nontrivial && !o.failed && written < maxfiles) {
			std::string path = dir + "/seed" + std::to_string(written++);
			FILE *f = fopen(path.c_str(), "wb");
			if (f) {
				for (size_t i = 0; i < o.t.taken.size(); i++) {
					uint64_t n = o.t.bf[i] ? o.t.bf[i] : (1ull << 32);
					unsigned w = n <= 256 ? 1 : n <= 65536 ? 2 : 4;
					for (unsigned b = 0; b < w; b++)
						fputc((o.t.taken[i] >> (8 * b)) & 0xff, f);
				}
				fclose(f);
			}
		}
	});
	printf("%ld\n", written);
	return 0;
}

static int mode_custom(long worker, long workers, long seed)
{
	if (!h_custom) {
		fprintf(stderr, "harness %s has no custom mode\n", H_NAME);
		return 2;
	}
	CustomOut o;
	h_custom(worker, workers, seed, g_params, o);
	std::ofstream f(g_out + ".stats.json");
	f << "{\"harness\":\"" << H_NAME << "\",\"mode\":\"custom\",\"evaluations\":" << o.evaluations
	  << ",\"nontrivial\":" << o.nontrivial << ",\"distinct_direct\":" << o.distinct
	  << ",\"exhaustive\":" << (o.exhaustive ? "true" : "false") << ",\"classes\":{";
	bool first = true;
	for (auto &kv : o.classes) {
		f << (first ? "" : ",") << "\"" << jesc(kv.first) << "\":" << kv.second;
		first = false;
	}
	f << "},\"samples\":[";
	first = true;
	for (auto &s : o.samples) {
		f << (first ? "" : ",") << "{\"pick\":\"custom\",\"case\":\"" << jesc(s) << "\"}";
		first = false;
	}
	f << "],\"failed\":" << (o.failed ? "true" : "false");
	if (o.failed)
		f << ",\"failmsg\":\"" << jesc(o.failmsg) << "\"";
	f << "}\n";
	f.close();
	if (o.failed) {
		g_lastfail = o.fail_tape;
		g_lastfail_msg = o.failmsg;
		g_have_fail = true;
		for (auto &kv : o.fail_params)
			g_params[kv.first] = kv.second;
		write_failure(o.fail_enumerating);
		return 1;
	}
	return 0;
}

static bool parse_replay(const char *path, std::vector<uint32_t> &tape, bool &enumerating, std::string &harness)
{
	std::ifstream f(path);
	if (!f)
		return false;
	std::string line;
	bool have = false;
	enumerating = false;
	while (std::getline(f, line)) {
		if (line.empty() || line[0] == '#')
			continue;
		std::istringstream ls(line);
		std::string kw;
		ls >> kw;
		if (kw == "harness")
			ls >> harness;
		else if (kw == "param") {
			std::string kv;
			ls >> kv;
			auto eq = kv.find('=');
			if (eq != std::string::npos)
				g_params[kv.substr(0, eq)] = kv.substr(eq + 1);
		} else if (kw == "enumerating")
			enumerating = true;
		else if (kw == "tape") {
			size_t n;
			ls >> n;
			tape.resize(n);
			for (size_t i = 0; i < n; i++)
				ls >> tape[i];
			have = true;
		}
	}
	return have;
}

static int mode_replay(const char *path, bool quiet)
{
	std::vector<uint32_t> tape;
	bool enumerating;
	std::string harness;
	if (!parse_replay(path, tape, enumerating, harness)) {
		fprintf(stderr, "cannot parse %s\n", path);
		return 2;
	}
	if (harness != H_NAME) {
		fprintf(stderr, "replay file is for harness %s, this is %s\n", harness.c_str(), H_NAME);
		return 2;
	}
	snprintf(g_hdr, sizeof g_hdr, "%s", header_text().c_str());
	g_counting = false;
	std::string log, msg;
	bool pass = run_tape(tape.data(), tape.size(), enumerating, true, &log, &msg, nullptr);
	if (!quiet)
		fputs(log.c_str(), stdout);
	printf("%s%s\n", pass ? "REPLAY-PASS" : "REPLAY-FAIL: ", pass ? "" : msg.c_str());
	return pass ? 0 : 1;
}

static int mode_merge(int argc, char **argv)
{
	std::vector<uint64_t> all;
	for (int i = 0; i < argc; i++) {
		FILE *f = fopen(argv[i], "rb");
		if (!f)
			continue;
		uint64_t buf[4096];
		size_t n;
		while ((n = fread(buf, 8, 4096, f)) > 0)
			all.insert(all.end(), buf, buf + n);
		fclose(f);
	}
	std::sort(all.begin(), all.end());
	size_t d = std::unique(all.begin(), all.end()) - all.begin();
	printf("%zu\n", d);
	return 0;
}

int main(int argc, char **argv)
{
	if (argc < 2) {
		fprintf(stderr, "usage: %s rc|enum|replay|merge ...\n", argv[0]);
		return 2;
	}
	std::string mode = argv[1];
	if (mode == "merge")
		return mode_merge(argc - 2, argv + 2);
	long seed = 1, cases = 1000, maxsize = 100, len = 100, depth = 1000, worker = 0, workers = 1, split = 3,
	     maxruns = 0, watchdog = 6;
	const char *file = nullptr;
	bool quiet = false;
	for (int i = 2; i < argc; i++) {
		std::string a = argv[i];
		auto val = [&]() -> const char * { return i + 1 < argc ? argv[++i] : ""; };
		if (a == "--seed")
			seed = atol(val());
		else if (a == "--cases")
			cases = atol(val());
		else if (a == "--maxsize")
			maxsize = atol(val());
		else if (a == "--len")
			len = atol(val());
		else if (a == "--depth")
			depth = atol(val());
		else if (a == "--worker")
			worker = atol(val());
		else if (a == "--workers")
			workers = atol(val());
		else if (a == "--split")
			split = atol(val());
		else if (a == "--maxruns")
			maxruns = atol(val());
		else if (a == "--watchdog")
			watchdog = atol(val());
		else if (a == "--out")
			g_out = val();
		else if (a == "--quiet")
			quiet = true;
		else if (a == "--journal")
			g_journal = val();
		else if (a == "--param") {
			std::string kv = val();
			auto eq = kv.find('=');
			if (eq != std::string::npos)
				g_params[kv.substr(0, eq)] = kv.substr(eq + 1);
		} else if (a[0] != '-')
			file = argv[i];
		else {
			fprintf(stderr, "unknown option %s\n", a.c_str());
			return 2;
		}
	}
	if (mode == "corpus") {
		g_counting = false;
		install_handlers(watchdog); // a broken tree must not hang the seed-corpus generation (exit 4, no file written)
		return mode_corpus(seed, cases, maxsize, len, g_out, maxruns > 0 ? maxruns : 40);
	}
	if (mode == "replay") {
		if (!file)
			return 2;
		install_handlers(watchdog);
		return mode_replay(file, quiet);
	}
	if (g_out.empty()) {
		fprintf(stderr, "--out required\n");
		return 2;
	}
	snprintf(g_crash_path, sizeof g_crash_path, "%s.crash", g_out.c_str());
	snprintf(g_hdr, sizeof g_hdr, "%s%s", header_text().c_str(), mode == "enum" ? "enumerating 1\n" : "");
	install_handlers(watchdog);
	if (mode == "rc")
		return mode_rc(seed, cases, maxsize, len);
	if (mode == "enum")
		return mode_enum(depth, worker, workers, split, maxruns);
	if (mode == "custom")
		return mode_custom(worker, workers, seed);
	fprintf(stderr, "unknown mode\n");
	return 2;
}
