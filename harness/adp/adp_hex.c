/* adp_hex.c - flat ABI over hex.c (C18); all inputs live in exactly-sized heap blocks */
#include <stdint.h>
#include <stdio.h>
#include <stdlib.h>
#include <string.h>

#include "librfn/hex.h"

static char *text;     /* NUL-terminated copy, exactly len+1 bytes */
static const char *cur; /* the parser's resume pointer */
static const char *s2;  /* convention 2: hex_get_byte(s, &s) */
static int started;

/* returns hex_dump_to_file's result; *out is the text (malloc'd) */
int ah_dump(const uint8_t *data, size_t n, char **out)
{
	uint8_t *d = malloc(n);
	if (n)
		memcpy(d, data, n);
	size_t len = 0;
	FILE *f = open_memstream(out, &len);
	int r = hex_dump_to_file(f, d, n);
	fclose(f);
	free(d);
	return r;
}

void ah_begin(const char *t, size_t len)
{
	free(text);
	text = malloc(len + 1);
	if (len)
		memcpy(text, t, len);
	text[len] = 0;
	/* a caller's resume pointer starts out uninitialised: poison it so that any use before the parser
	 * has set it is an ASan use-after-free */
	char *poison = malloc(1);
	free(poison);
	cur = poison;
	s2 = text;
	started = 0;
}

/* a second text in the storage of the first (a refilled line buffer): same address, new contents; the text must not be
 * longer than the one given to ah_begin */
void ah_refill(const char *t, size_t len)
{
	if (len)
		memcpy(text, t, len);
	text[len] = 0;
	char *poison = malloc(1);
	free(poison);
	cur = poison;
	s2 = text;
	started = 0;
}

/* convention 1: text on the first call, NULL afterwards */
int ah_next(void)
{
	int r = hex_get_byte(started ? NULL : text, &cur);
	started = 1;
	return r;
}

/* convention 2 (as tests/hextest.c does): hex_get_byte(s, &s) */
int ah_next2(void) { return hex_get_byte(s2, &s2); }

/* -1: resume pointer is NULL, else offset into the text, -2 if outside it */
long ah_resume_offset(void)
{
	if (!cur)
		return -1;
	long o = cur - text;
	return (o < 0 || o > (long)strlen(text)) ? -2 : o;
}
