/* adp_mlog.c - flat ABI over mlog.c (C20) */
#include <stdint.h>
#include <stdio.h>
#include <stdlib.h>
#include <string.h>

#include "librfn/mlog.h"

void mlog_verif_set_count(unsigned int count); /* hook, guarded by LIBRFN_VERIF in mlog.c */

static const char *const STRS[] = { "alpha", "", "a longer constant string with spaces", "%d not a format", "z" };
#define NSTR 5

/* format strings: literal, with 0-3 uintptr_t-sized arguments; 's' marks a string argument */
static const struct {
	const char *fmt;
	int nargs;
	const char *kinds;
} F[] = {
	{ "plain message\n", 0, "" },
	{ "", 0, "" },
	{ "one %lu\n", 1, "u" },
	{ "hex %lx and %lx\n", 2, "uu" },
	{ "three %lu %lu %lu\n", 3, "uuu" },
	{ "str [%s]\n", 1, "s" },
	{ "mix %s=%lu (0x%lx)\n", 3, "suu" },
	{ "%lu", 1, "u" },
	{ "no newline %lu/%lu", 2, "uu" },
	{ "two strings %s %s\n", 2, "ss" },
	{ "percent %% literal %lu\n", 1, "u" },
	{ "%s%s%s\n", 3, "sss" },
	{ "width %*lu|%lu\n", 3, "wuu" },   /* '*' takes its width from the argument list: still three arguments */
	{ "%-*s|\n", 2, "ws" },
	/* wide fields: the formatted length sweeps every value from a few characters to beyond 256 */
	{ "%*lu\n", 2, "Wu" },
	{ "long %-*s|%lu\n", 3, "Wsu" },
};
#define NFMT 16

int am_nfmt(void) { return NFMT; }
int am_nargs(int f) { return F[f].nargs; }

static uintptr_t arg(int f, int i, unsigned long v)
{
	if (i < F[f].nargs && F[f].kinds[i] == 's')
		return (uintptr_t)STRS[v % NSTR];
	if (i < F[f].nargs && F[f].kinds[i] == 'w')
		return (uintptr_t)(v % 12); /* a field width */
	if (i < F[f].nargs && F[f].kinds[i] == 'W')
		return (uintptr_t)(v % 270); /* a wide field */
	return (uintptr_t)v;
}

void am_clear(void) { mlog_clear(); }

void am_log(int nice, int f, unsigned long a, unsigned long b, unsigned long c)
{
	uintptr_t x = arg(f, 0, a), y = arg(f, 1, b), z = arg(f, 2, c);
	const char *fmt = F[f].fmt;
	/* pass exactly as many arguments as the format takes, as a caller would */
	switch (F[f].nargs) {
	case 0:
		if (nice) mlog_nice(fmt); else mlog(fmt);
		break;
	case 1:
		if (nice) mlog_nice(fmt, x); else mlog(fmt, x);
		break;
	case 2:
		if (nice) mlog_nice(fmt, x, y); else mlog(fmt, x, y);
		break;
	default:
		if (nice) mlog_nice(fmt, x, y, z); else mlog(fmt, x, y, z);
		break;
	}
}

/* the harness' own formatting of the same message (reference) */
int am_expected(int f, unsigned long a, unsigned long b, unsigned long c, char *out, int n)
{
#pragma GCC diagnostic push
#pragma GCC diagnostic ignored "-Wformat-nonliteral"
#pragma GCC diagnostic ignored "-Wformat-security"
#pragma GCC diagnostic ignored "-Wformat-extra-args"
	return snprintf(out, n, F[f].fmt, arg(f, 0, a), arg(f, 1, b), arg(f, 2, c));
#pragma GCC diagnostic pop
}

char *am_get_line(int k) { return mlog_get_line(k); }
void am_free(char *p) { free(p); }

/* dump into a memory stream; caller frees */
char *am_dump(void)
{
	char *buf = NULL;
	size_t len = 0;
	FILE *f = open_memstream(&buf, &len);
	mlog_dump(f);
	fclose(f);
	return buf;
}

void am_set_count(unsigned int c) { mlog_verif_set_count(c); }
