/* adp_wav.c - flat ABI over wavheader.c (C13, C14).  The harness sees the header structure as an
 * opaque byte image; every buffer handed to the library is an exactly-sized heap block. */
#include <stdint.h>
#include <stdlib.h>
#include <string.h>

#include "librfn/wavheader.h"

unsigned aw_sizeof(void) { return sizeof(rf_wavheader_t); }

void aw_init(uint8_t *img, int sfreq, int ch, int fmt)
{
	rf_wavheader_t wh;
	memcpy(&wh, img, sizeof wh);
	rf_wavheader_init(&wh, sfreq, ch, (rf_wavheader_format_t)fmt);
	memcpy(img, &wh, sizeof wh);
}
void aw_set_frames(uint8_t *img, unsigned frames)
{
	rf_wavheader_t wh;
	memcpy(&wh, img, sizeof wh);
	rf_wavheader_set_num_frames(&wh, frames);
	memcpy(img, &wh, sizeof wh);
}
int aw_validate(const uint8_t *img)
{
	rf_wavheader_t wh;
	memcpy(&wh, img, sizeof wh);
	return rf_wavheader_validate(&wh);
}
int aw_get_format(const uint8_t *img)
{
	rf_wavheader_t wh;
	memcpy(&wh, img, sizeof wh);
	return rf_wavheader_get_format(&wh);
}
/* returns strlen of the description, -1 if NULL */
int aw_tostring(const uint8_t *img)
{
	rf_wavheader_t wh;
	memcpy(&wh, img, sizeof wh);
	char *s = rf_wavheader_tostring(&wh);
	int n = s ? (int)strlen(s) : -1;
	free(s);
	return n;
}
int aw_encode(const uint8_t *img, uint8_t *out, unsigned outsz)
{
	rf_wavheader_t wh;
	memcpy(&wh, img, sizeof wh);
	uint8_t *b = malloc(outsz);
	memset(b, 0xEE, outsz);
	int r = rf_wavheader_encode(&wh, b, outsz);
	memcpy(out, b, outsz);
	free(b);
	return r;
}
int aw_decode(const uint8_t *in, unsigned n, uint8_t *img_out)
{
	rf_wavheader_t *wh = malloc(sizeof *wh); /* heap: writes outside the structure are caught too */
	uint8_t *b = malloc(n);
	if (n)
		memcpy(b, in, n);
	memset(wh, 0xEE, sizeof *wh);
	int r = rf_wavheader_decode(b, n, wh);
	memcpy(img_out, wh, sizeof *wh);
	free(b);
	free(wh);
	return r;
}
enum { F_CHUNK_SIZE, F_DATA_SIZE, F_BLOCK_ALIGN, F_BYTE_RATE, F_BITS, F_CHANNELS, F_RATE, F_FMT_SIZE, F_AUDIO_FORMAT,
       F_SAMPLE_LENGTH, F_FACT_SIZE, F_CB_SIZE };
uint32_t aw_field(const uint8_t *img, int which)
{
	rf_wavheader_t wh;
	memcpy(&wh, img, sizeof wh);
	switch (which) {
	case F_CHUNK_SIZE: return wh.chunk_size;
	case F_DATA_SIZE: return wh.data_chunk_size;
	case F_BLOCK_ALIGN: return wh.block_align;
	case F_BYTE_RATE: return wh.byte_rate;
	case F_BITS: return wh.bits_per_sample;
	case F_CHANNELS: return wh.num_channels;
	case F_RATE: return wh.sample_rate;
	case F_FMT_SIZE: return wh.fmt_chunk_size;
	case F_AUDIO_FORMAT: return wh.audio_format;
	case F_SAMPLE_LENGTH: return wh.sample_length;
	case F_FACT_SIZE: return wh.fact_chunk_size;
	case F_CB_SIZE: return wh.cb_size;
	}
	return 0;
}
int aw_min_size(void) { return RF_WAVHEADER_MIN_SIZE; }
