/* adp_bitops.c - flat ABI over bitops.c and the constexpr.h macros (C16). */
#include <stdint.h>

#include "librfn/bitops.h"
#include "librfn/constexpr.h"

int ab_bitcnt(uint32_t x) { return bitcnt(x); }
int ab_clz(uint32_t x) { return clz(x); }
int ab_ctz(uint32_t x) { return ctz(x); }
int ab_ilog2(uint32_t x) { return ilog2(x); }

/* run-time evaluation: the volatile keeps the compiler from folding.  The results travel as long long so that the
 * value is seen as the macro produced it: "-1 for c = 0" delivered as the unsigned value 4294967295 is not -1. */
long long ab_const_pop(uint64_t c)
{
	volatile uint64_t v = c;
	uint64_t x = v;
	return const_pop(x);
}
long long ab_const_lssb(uint64_t c)
{
	volatile uint64_t v = c;
	uint64_t x = v;
	return const_lssb(x);
}
