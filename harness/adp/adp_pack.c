/* adp_pack.c - flat ABI over pack.c (C12).  Every buffer handed to the library is an exactly-sized
 * heap block so that ASan sees a one-byte excursion on either side. */
#include <stdint.h>
#include <stdlib.h>
#include <string.h>

#include "librfn/pack.h"

/* declared in pack.h but not implemented at the pinned commit: exercised only if a tree provides them */
#pragma weak rf_pack_char
#pragma weak rf_pack_s8
#pragma weak rf_pack_u8
#pragma weak rf_pack_s16be
#pragma weak rf_pack_s32be
#pragma weak rf_pack_u32be
#pragma weak rf_unpack_s16be
#pragma weak rf_unpack_s16le
#pragma weak rf_unpack_u16be
#pragma weak rf_unpack_s32be
#pragma weak rf_unpack_s32le
#pragma weak rf_unpack_u32be

static rf_pack_t pk;
static uint8_t *buf;
static unsigned bufsz;

enum { P_S16LE, P_U16BE, P_U16LE, P_S32LE, P_U32LE, P_CHAR, P_S8, P_U8, P_S16BE, P_S32BE, P_U32BE, P_N };
enum { U_CHAR, U_S8, U_U8, U_U16LE, U_U32LE, U_S16BE, U_S16LE, U_U16BE, U_S32BE, U_S32LE, U_U32BE, U_N };

void ap_init(unsigned size, const uint8_t *content)
{
	free(buf);
	buf = malloc(size);
	bufsz = size;
	if (size)
		memcpy(buf, content, size);
	rf_pack_init(&pk, buf, size);
}
void ap_rewind(void) { rf_pack_init(&pk, buf, bufsz); }
const uint8_t *ap_buf(void) { return buf; }
int ap_consumed(void) { return rf_pack_consumed(&pk); }
int ap_remaining(void) { return rf_pack_remaining(&pk); }

int ap_has_pack(int op)
{
	switch (op) {
	case P_S16LE: case P_U16BE: case P_U16LE: case P_S32LE: case P_U32LE: return 1;
	case P_CHAR: return rf_pack_char != 0;
	case P_S8: return rf_pack_s8 != 0;
	case P_U8: return rf_pack_u8 != 0;
	case P_S16BE: return rf_pack_s16be != 0;
	case P_S32BE: return rf_pack_s32be != 0;
	case P_U32BE: return rf_pack_u32be != 0;
	}
	return 0;
}
int ap_has_unpack(int op)
{
	switch (op) {
	case U_CHAR: case U_S8: case U_U8: case U_U16LE: case U_U32LE: return 1;
	case U_S16BE: return rf_unpack_s16be != 0;
	case U_S16LE: return rf_unpack_s16le != 0;
	case U_U16BE: return rf_unpack_u16be != 0;
	case U_S32BE: return rf_unpack_s32be != 0;
	case U_S32LE: return rf_unpack_s32le != 0;
	case U_U32BE: return rf_unpack_u32be != 0;
	}
	return 0;
}
void ap_pack(int op, uint32_t v)
{
	switch (op) {
	case P_S16LE: rf_pack_s16le(&pk, (int16_t)v); break;
	case P_U16BE: rf_pack_u16be(&pk, (uint16_t)v); break;
	case P_U16LE: rf_pack_u16le(&pk, (uint16_t)v); break;
	case P_S32LE: rf_pack_s32le(&pk, (int32_t)v); break;
	case P_U32LE: rf_pack_u32le(&pk, v); break;
	case P_CHAR: rf_pack_char(&pk, (char)v); break;
	case P_S8: rf_pack_s8(&pk, (int8_t)v); break;
	case P_U8: rf_pack_u8(&pk, (uint8_t)v); break;
	case P_S16BE: rf_pack_s16be(&pk, (int16_t)v); break;
	case P_S32BE: rf_pack_s32be(&pk, (int32_t)v); break;
	case P_U32BE: rf_pack_u32be(&pk, v); break;
	}
}
/* result as the signed/unsigned value the function returned, widened */
int64_t ap_unpack(int op)
{
	switch (op) {
	case U_CHAR: return (int64_t)(unsigned char)rf_unpack_char(&pk);
	case U_S8: return rf_unpack_s8(&pk);
	case U_U8: return rf_unpack_u8(&pk);
	case U_U16LE: return rf_unpack_u16le(&pk);
	case U_U32LE: return rf_unpack_u32le(&pk);
	case U_S16BE: return rf_unpack_s16be(&pk);
	case U_S16LE: return rf_unpack_s16le(&pk);
	case U_U16BE: return rf_unpack_u16be(&pk);
	case U_S32BE: return rf_unpack_s32be(&pk);
	case U_S32LE: return rf_unpack_s32le(&pk);
	case U_U32BE: return rf_unpack_u32be(&pk);
	}
	return 0;
}
void ap_pack_bytes(const uint8_t *src, int null_src, unsigned n)
{
	uint8_t *s = NULL;
	if (!null_src) {
		s = malloc(n);
		if (n)
			memcpy(s, src, n);
	}
	rf_pack_bytes(&pk, s, n);
	free(s);
}
void ap_unpack_bytes(uint8_t *dst, int null_dst, unsigned n)
{
	uint8_t *d = NULL;
	if (!null_dst) {
		d = malloc(n);
		if (n)
			memset(d, 0xCC, n);
	}
	rf_unpack_bytes(&pk, d, n);
	if (d && n)
		memcpy(dst, d, n);
	free(d);
}
