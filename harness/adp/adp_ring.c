/* adp_ring.c - flat ABI over ringbuf.c (C05), shared by the sequential (ASan) and the scheduled build */
#include <stdint.h>
#include <stdlib.h>
#include <string.h>

#include "librfn/ringbuf.h"
#ifdef VERIF_ISCHED
#include "../isched/vrt.h"
#endif

static ringbuf_t *rb;
static uint8_t *block, *store;
static size_t store_len;

void ar_setup(unsigned buf_len)
{
	free(rb);
	free(block);
	store_len = buf_len;
#ifdef VERIF_ISCHED
	block = malloc(buf_len + 128);
	memset(block, 0xC7, buf_len + 128);
	store = block + 64;
	vrt_register_buffer(store, buf_len, "ring-storage");
#else
	block = store = malloc(buf_len); /* exact block: ASan guards both sides */
	memset(store, 0xC7, buf_len);
#endif
	rb = malloc(sizeof *rb);
	ringbuf_init(rb, store, buf_len);
}
int ar_canaries_ok(void)
{
#ifdef VERIF_ISCHED
	for (int i = 0; i < 64; i++)
		if (block[i] != 0xC7 || block[64 + store_len + i] != 0xC7)
			return 0;
#endif
	return 1;
}
int ar_put(int d) { return ringbuf_put(rb, (uint8_t)d); }
void ar_putchar(int ch) { ringbuf_putchar(rb, (char)ch); }
int ar_get(void) { return ringbuf_get(rb); }
int ar_empty(void) { return ringbuf_empty(rb); }

#ifndef VERIF_ISCHED
/* ---- long hauls (custom stage of the sequential harness): one descriptor carries `pairs` get/put pairs with `hold`
 * bytes in flight; every byte is checked.  len >= 2^31 uses a lazily mapped region (pages behind the reader are given
 * back, so the resident set stays small).  Returns 0 if all went well, else 1 with a message. */
#include <stdio.h>
#include <sys/mman.h>
int ar_long_haul(unsigned long long len, unsigned hold, unsigned long long pairs, char *msg, size_t msglen)
{
	ringbuf_t r;
	uint8_t *mem;
	int mapped = len > (1ull << 28);
	if (mapped) {
		mem = mmap(NULL, len, PROT_READ | PROT_WRITE, MAP_PRIVATE | MAP_ANONYMOUS | MAP_NORESERVE, -1, 0);
		if (mem == MAP_FAILED) {
			snprintf(msg, msglen, "(harness) cannot map %llu bytes", len);
			return 2;
		}
	} else
		mem = malloc(len);
	ringbuf_init(&r, mem, len);
	unsigned long long in = 0, out = 0;
	int rc = 1;
#define V(k) ((uint8_t)((k) * 7 + ((k) >> 8) + 3))
	for (unsigned i = 0; i < hold; i++, in++)
		if (!ringbuf_put(&r, V(in))) {
			snprintf(msg, msglen, "ring of %llu bytes: put #%llu refused with %llu bytes unread", len, in, in - out);
			goto done;
		}
	for (unsigned long long k = 0; k < pairs; k++) {
		int g = ringbuf_get(&r);
		if (g != V(out)) {
			snprintf(msg, msglen, "ring of %llu bytes, %u bytes in flight: get #%llu returned %d, byte #%llu of the stream is %d", len, hold, out, g, out, V(out));
			goto done;
		}
		out++;
		if (!ringbuf_put(&r, V(in))) {
			snprintf(msg, msglen, "ring of %llu bytes: put #%llu refused with only %llu bytes unread", len, in, in - out);
			goto done;
		}
		in++;
		if (mapped && (out & ((1ull << 27) - 1)) == 0 && (out % len) >= (1ull << 27))
			madvise(mem + ((out % len) & ~((1ull << 27) - 1)) - (1ull << 27), 1ull << 27, MADV_DONTNEED);
	}
	while (out < in) {
		int g = ringbuf_get(&r);
		if (g != V(out)) {
			snprintf(msg, msglen, "ring of %llu bytes: final drain, get #%llu returned %d, expected %d", len, out, g, V(out));
			goto done;
		}
		out++;
	}
	if (ringbuf_get(&r) != -1 || !ringbuf_empty(&r)) {
		snprintf(msg, msglen, "ring of %llu bytes: not empty after %llu bytes went through and all were read", len, in);
		goto done;
	}
	rc = 0;
done:
#undef V
	if (mapped)
		munmap(mem, len);
	else
		free(mem);
	return rc;
}
#endif
