/* adp_ring.c - flat ABI over ringbuf.c (C05), shared by the sequential (ASan) and the scheduled build */
#include <stdint.h>
#include <stdlib.h>
#include <string.h>

#include "librfn/ringbuf.h"
#ifdef VERIF_ISCHED
#include "../isched/vrt.h"
#endif

static ringbuf_t *rb;
static uint8_t *block, *store;
static size_t store_len;

void ar_setup(unsigned buf_len)
{
	free(rb);
	free(block);
	store_len = buf_len;
#ifdef VERIF_ISCHED
	block = malloc(buf_len + 128);
	memset(block, 0xC7, buf_len + 128);
	store = block + 64;
	vrt_register_buffer(store, buf_len, "ring-storage");
#else
	block = store = malloc(buf_len); /* exact block: ASan guards both sides */
	memset(store, 0xC7, buf_len);
#endif
	rb = malloc(sizeof *rb);
	ringbuf_init(rb, store, buf_len);
}
int ar_canaries_ok(void)
{
#ifdef VERIF_ISCHED
	for (int i = 0; i < 64; i++)
		if (block[i] != 0xC7 || block[64 + store_len + i] != 0xC7)
			return 0;
#endif
	return 1;
}
int ar_put(int d) { return ringbuf_put(rb, (uint8_t)d); }
void ar_putchar(int ch) { ringbuf_putchar(rb, (char)ch); }
int ar_get(void) { return ringbuf_get(rb); }
int ar_empty(void) { return ringbuf_empty(rb); }
