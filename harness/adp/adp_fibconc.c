/* adp_fibconc.c - harness-side glue for the interrupt / thread scenarios around the fibre scheduler
 * (C06, C03 interrupt-timing half, C07).  NOT instrumented; fibre.c, messageq.c, list.c are. */
#include <stdint.h>
#include <stdlib.h>
#include <string.h>

#include "librfn/fibre.h"
#include "../isched/vrt.h"

void fibre_verif_reset(void); /* hook */

extern int hfc_dispatch(int idx); /* harness: behaviour of fibre idx on this dispatch; returns a pt_state_t */

#define NF 3 /* 0 = event handling fibre, 1 = yielder, 2 = sleeper */
static fibre_eventq_t *evq;
static fibre_t *plain; /* fibres 1 and 2 */
static uint8_t *evbuf; /* depth slots of evsize bytes; an event is a uint32_t id at the start of its slot */
static uint8_t *evblock;
static unsigned evdepth, evsize = 4;

static int idx_of(fibre_t *f)
{
	if (f == &evq->fibre)
		return 0;
	return 1 + (int)(f - plain);
}
static fibre_t *fibre_of(int i) { return i == 0 ? &evq->fibre : &plain[i - 1]; }
static int body(fibre_t *f) { return hfc_dispatch(idx_of(f)); }

void afc_setup2(unsigned depth, unsigned size);
void afc_setup(unsigned depth) { afc_setup2(depth, 4); }
void afc_setup2(unsigned depth, unsigned size)
{
	free(evq);
	free(plain);
	free(evblock);
	evdepth = depth;
	evsize = size;
	evq = malloc(sizeof *evq);
	plain = malloc(2 * sizeof *plain);
	/* the storage sits in the middle of a block of its own, so that the +-64 byte zone the bounds check
	 * watches belongs to nobody else */
	evblock = malloc((size_t)depth * evsize + 128);
	memset(evblock, 0xC7, (size_t)depth * evsize + 128);
	evbuf = evblock + 64;
	fibre_verif_reset();
	fibre_eventq_init(evq, body, evbuf, (size_t)depth * evsize, evsize);
	fibre_init(&plain[0], body);
	fibre_init(&plain[1], body);
	vrt_register_buffer(evbuf, (size_t)depth * evsize, "event-storage");
}
uint32_t afc_next(uint32_t t) { return fibre_scheduler_next(t); }
void afc_run(int i) { fibre_run(fibre_of(i)); }
int afc_run_atomic(int i) { return fibre_run_atomic(fibre_of(i)); }
int afc_kill(int i) { return fibre_kill(fibre_of(i)); }
int afc_timeout(uint32_t due) { return fibre_timeout(due); }
int afc_self(void)
{
	fibre_t *f = fibre_self();
	return f ? idx_of(f) : -1;
}
/* event queue: slot index or -1 */
static int slot_of(void *p)
{
	long o = (uint8_t *)p - evbuf;
	if (o < 0 || o % evsize || o / evsize >= (long)evdepth)
		return -2; /* not the start of one of the slots */
	return (int)(o / evsize);
}
int afc_ev_claim(void)
{
	void *p = fibre_eventq_claim(evq);
	return p ? slot_of(p) : -1;
}
void afc_ev_fill(int slot, uint32_t id)
{
	memcpy(evbuf + (size_t)slot * evsize, &id, sizeof id);
	vrt_plain_write(evbuf + (size_t)slot * evsize, sizeof id);
}
int afc_ev_send(int slot) { return fibre_eventq_send(evq, evbuf + (size_t)slot * evsize); }
int afc_ev_receive(uint32_t *id)
{
	void *p = fibre_eventq_receive(evq);
	if (!p)
		return -1;
	vrt_plain_read(p, sizeof *id);
	memcpy(id, p, sizeof *id);
	return slot_of(p);
}
void afc_ev_release(int slot) { fibre_eventq_release(evq, evbuf + (size_t)slot * evsize); }
int afc_ev_empty(void) { return fibre_eventq_empty(evq); }
int afc_canaries_ok(void)
{
	for (int i = 0; i < 64; i++)
		if (evblock[i] != 0xC7 || evblock[64 + (size_t)evdepth * evsize + i] != 0xC7)
			return 0;
	return 1;
}
