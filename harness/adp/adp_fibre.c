/* adp_fibre.c - flat ABI over fibre.c for the sequential scheduler harness (C01, C02, C03).
 * Every fibre body is one real protothread with four numbered segments in a loop; what a dispatch
 * does (inner API calls, return code) is decided by the harness through hf_dispatch(). */
#include <stdint.h>
#include <stdlib.h>
#include <string.h>

#include "librfn/fibre.h"

void fibre_verif_reset(void); /* hook, guarded by LIBRFN_VERIF */

extern int hf_dispatch(int idx, int seg); /* implemented by the harness; returns a pt_state_t */

#define MAXF 8
static fibre_t *fib;
static int nfib;

static int body(fibre_t *f)
{
	int idx = (int)(f - fib);
	int rc;

	PT_BEGIN_FIBRE(f);
	for (;;) {
		rc = hf_dispatch(idx, 0);
		PT_EXIT_ON(rc == PT_EXITED);
		PT_FAIL_ON(rc == PT_FAILED);
		if (rc == PT_YIELDED)
			PT_YIELD();
		else
			PT_WAIT();

		rc = hf_dispatch(idx, 1);
		PT_EXIT_ON(rc == PT_EXITED);
		PT_FAIL_ON(rc == PT_FAILED);
		if (rc == PT_YIELDED)
			PT_YIELD();
		else
			PT_WAIT();

		rc = hf_dispatch(idx, 2);
		PT_EXIT_ON(rc == PT_EXITED);
		PT_FAIL_ON(rc == PT_FAILED);
		if (rc == PT_YIELDED)
			PT_YIELD();
		else
			PT_WAIT();

		rc = hf_dispatch(idx, 3);
		PT_EXIT_ON(rc == PT_EXITED);
		PT_FAIL_ON(rc == PT_FAILED);
		if (rc == PT_YIELDED)
			PT_YIELD();
		else
			PT_WAIT();
	}
	PT_END();
}

void af_setup(int n)
{
	free(fib);
	nfib = n;
	fib = malloc(sizeof(fibre_t) * n);
	fibre_verif_reset();
	for (int i = 0; i < n; i++)
		fibre_init(&fib[i], body);
}
uint32_t af_next(uint32_t t) { return fibre_scheduler_next(t); }
void af_run(int i) { fibre_run(&fib[i]); }
int af_run_atomic(int i) { return fibre_run_atomic(&fib[i]); }
int af_kill(int i) { return fibre_kill(&fib[i]); }
int af_timeout(uint32_t due) { return fibre_timeout(due); }
int af_self(void)
{
	fibre_t *f = fibre_self();
	if (!f)
		return -1;
	if (f < fib || f >= fib + nfib)
		return -2;
	return (int)(f - fib);
}
int af_unbounded(void) { return (int)FIBRE_UNBOUNDED_SLEEP; }
