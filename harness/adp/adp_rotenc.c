/* adp_rotenc.c - flat ABI over rotenc.c (C19); decoders are opaque heap blocks of sizeof(rotenc_t) */
#include <stdint.h>
#include <stdlib.h>
#include <string.h>
#include "librfn/rotenc.h"

unsigned arot_size(void) { return sizeof(rotenc_t); }
void arot_init(void *p)
{
	rotenc_t r = ROTENC_VAR_INIT;
	memcpy(p, &r, sizeof r);
}
void arot_decode(void *p, int state) { rotenc_decode(p, (uint8_t)state); }
int arot_count(void *p) { return rotenc_count(p); }
int arot_count14(void *p) { return rotenc_count14(p); }
