/* adp_rand.c - flat ABI over rand.c (C17) */
#include <stdint.h>
#include "librfn/rand.h"
uint32_t ar_rand31_r(uint32_t *s) { return rand31_r(s); }
