/* adp_console.c - flat ABI over console.c (C15).  The console_t lives in an exactly-sized heap block;
 * registered commands are capturing protothreads that report (argc, argv) to the harness. */
#include <stdint.h>
#include <stdio.h>
#include <stdlib.h>
#include <string.h>

#include "librfn/console.h"

void fibre_verif_reset(void);   /* hooks, guarded by LIBRFN_VERIF */
void console_verif_reset(void);

/* the platform half the library expects the application to provide */
void console_hwinit(console_t *c) { (void)c; }

/* harness call-back: one dispatch of a registered command.
 * off[i]: offset of argv[i] inside the 80-byte line buffer, -1 if it points elsewhere;
 * term[i]: 1 if a NUL follows inside the buffer; arg[i]: the string (bounded copy).
 * Returns #yields (bits 0-3) | scribble flag (bit 4) | first byte (bits 8-15) | byte count (bits 16-23). */
extern int hc_capture(int cmd, int argc, const int *off, const int *term, const char (*arg)[81]);
extern void hc_complete(int cmd);

#define MAXCMD 40
static console_t *con;
static console_cmd_t cmds[MAXCMD];
static char *names[MAXCMD];
static int ncmds;
static FILE *out;
static char *outbuf;
static size_t outlen, outpos;
static pt_t evalpt;
static char *evalstr;

static pt_state_t capture_cmd(console_t *c)
{
	static int remaining;
	PT_BEGIN(&c->pt);
	{
		int off[4], term[4];
		char arg[4][81];
		for (int i = 0; i < 4; i++) {
			char *p = c->argv[i];
			memset(arg[i], 0, sizeof arg[i]);
			if (p >= c->scratch.buf && p < c->scratch.buf + SCRATCH_SIZE) {
				off[i] = (int)(p - c->scratch.buf);
				size_t room = SCRATCH_SIZE - off[i];
				size_t n = strnlen(p, room);
				term[i] = n < room;
				memcpy(arg[i], p, n);
			} else {
				off[i] = -1;
				term[i] = 0;
			}
		}
		int code = hc_capture((int)(c->cmd - cmds), c->argc, off, term, arg);
		remaining = code & 15;
		if (code & 16) { /* the command keeps state in the scratch area, as console.h allows */
			int a = (code >> 8) & 255, n = (code >> 16) & 255;
			for (int i = a; i < a + n && i < SCRATCH_SIZE; i++)
				c->scratch.u8[i] = (uint8_t)('a' + i % 26);
		}
	}
	while (remaining > 0) {
		remaining--;
		PT_YIELD();
	}
	hc_complete((int)(c->cmd - cmds)); /* the command has been resumed after every yield and now exits */
	PT_END();
}

void ac_reset(void)
{
	if (out)
		fclose(out);
	free(outbuf);
	outbuf = NULL;
	outlen = outpos = 0;
	free(con);
	for (int i = 0; i < ncmds; i++)
		free(names[i]);
	ncmds = 0;
	free(evalstr);
	evalstr = NULL;
	fibre_verif_reset();
	console_verif_reset();
	con = malloc(sizeof(console_t));
	out = open_memstream(&outbuf, &outlen);
	console_init(con, out);
}

int ac_register(const char *name)
{
	if (ncmds >= MAXCMD)
		return -2;
	size_t n = strlen(name);
	names[ncmds] = malloc(n + 1); /* exact block: an over-read by strcmp is visible */
	memcpy(names[ncmds], name, n + 1);
	cmds[ncmds].name = names[ncmds];
	cmds[ncmds].fn = capture_cmd;
	int r = console_register(&cmds[ncmds]);
	ncmds++;
	return r;
}

void ac_process(int ch) { console_process(con, (char)ch); }
void ac_putchar(int ch) { console_putchar(con, (char)ch); }
uint32_t ac_sched(uint32_t t) { return fibre_scheduler_next(t); }
int ac_ring_empty(void) { return ringbuf_empty(&con->ring); }

void ac_eval_begin(const char *s)
{
	size_t n = strlen(s);
	free(evalstr);
	evalstr = malloc(n + 1);
	memcpy(evalstr, s, n + 1);
	PT_INIT(&evalpt);
}
int ac_eval_step(void) { return console_eval(&evalpt, con, evalstr); }

/* output written since the last call */
size_t ac_output(char *buf, size_t max)
{
	fflush(out);
	size_t n = outlen - outpos;
	if (n > max - 1)
		n = max - 1;
	memcpy(buf, outbuf + outpos, n);
	buf[n] = 0;
	outpos = outlen;
	return n;
}
