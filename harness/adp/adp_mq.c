/* adp_mq.c - flat ABI over messageq.c for the sequential geometry harness (C10).
 * Queue 0 is built with MESSAGEQ_VAR_INIT, queue 1 with messageq_init; storage blocks are exactly
 * depth*msg_len+slack bytes on the heap. */
#include <stdint.h>
#include <stdlib.h>
#include <string.h>

#include "librfn/messageq.h"

static messageq_t *q[2];
static uint8_t *store[2];
static size_t store_len;

void aq_setup(unsigned depth, unsigned msg_len, unsigned slack)
{
	store_len = (size_t)depth * msg_len + slack;
	for (int i = 0; i < 2; i++) {
		free(q[i]);
		free(store[i]);
		store[i] = malloc(store_len);
		memset(store[i], 0xEE, store_len);
		q[i] = malloc(sizeof(messageq_t));
	}
	/* the macro is handed expressions, not identifiers, as a caller writing sizeof(hdr) + sizeof(payload) would:
	 * an unparenthesised parameter in the macro body changes the geometry */
	size_t len_a = store_len / 2, len_b = store_len - len_a;
	unsigned hdr = msg_len / 3, payload = msg_len - hdr;
	messageq_t tmp = MESSAGEQ_VAR_INIT(store[0], len_a + len_b, hdr + payload);
	memcpy(q[0], &tmp, sizeof tmp);
	messageq_init(q[1], store[1], store_len, msg_len);
}
static long off(int i, void *p)
{
	if (!p)
		return -1;
	long o = (uint8_t *)p - store[i];
	return (o < 0 || (size_t)o >= store_len) ? -2 : o;
}
long aq_claim(int i) { return off(i, messageq_claim(q[i])); }
void aq_send(int i, long o) { messageq_send(q[i], store[i] + o); }
long aq_receive(int i) { return off(i, messageq_receive(q[i])); }
void aq_release(int i, long o) { messageq_release(q[i], store[i] + o); }
int aq_empty(int i) { return messageq_empty(q[i]); }
uint8_t *aq_storage(int i) { return store[i]; }
