/* adp_mq.c - flat ABI over messageq.c for the sequential geometry harness (C10).
 * Queue 0 is built with MESSAGEQ_VAR_INIT, queue 1 with messageq_init; storage blocks are exactly
 * depth*msg_len+slack bytes on the heap. */
#include <stdint.h>
#include <stdlib.h>
#include <string.h>

#include "librfn/messageq.h"

static messageq_t *q[2];
static uint8_t *store[2];
static size_t store_len;

static uint8_t *block[2];
static unsigned lead;

/* mis: the caller's memory starts `mis` bytes into a heap block (0 = as malloc aligns it; 1..3 = not even 4-byte
 * aligned - byte buffers carry no alignment promise); the leading bytes are watched like the trailing slack */
void aq_setup4(unsigned depth, unsigned msg_len, unsigned slack, unsigned mis)
{
	store_len = (size_t)depth * msg_len + slack;
	lead = mis;
	for (int i = 0; i < 2; i++) {
		free(q[i]);
		free(block[i]);
		block[i] = malloc(store_len + mis);
		memset(block[i], 0xEE, store_len + mis);
		store[i] = block[i] + mis;
		q[i] = malloc(sizeof(messageq_t));
	}
	/* the macro is handed expressions, not identifiers, as a caller writing sizeof(hdr) + sizeof(payload) would:
	 * an unparenthesised parameter in the macro body changes the geometry */
	size_t len_a = store_len / 2, len_b = store_len - len_a;
	unsigned hdr = msg_len / 3, payload = msg_len - hdr;
	messageq_t tmp = MESSAGEQ_VAR_INIT(store[0], len_a + len_b, hdr + payload);
	memcpy(q[0], &tmp, sizeof tmp);
	messageq_init(q[1], store[1], store_len, msg_len);
}
void aq_setup(unsigned depth, unsigned msg_len, unsigned slack) { aq_setup4(depth, msg_len, slack, 0); }
int aq_lead_ok(int i)
{
	for (unsigned k = 0; k < lead; k++)
		if (block[i][k] != 0xEE)
			return 0;
	return 1;
}
static long off(int i, void *p)
{
	if (!p)
		return -1;
	long o = (uint8_t *)p - store[i];
	return (o < 0 || (size_t)o >= store_len) ? -2 : o;
}
long aq_claim(int i) { return off(i, messageq_claim(q[i])); }
void aq_send(int i, long o) { messageq_send(q[i], store[i] + o); }
long aq_receive(int i) { return off(i, messageq_receive(q[i])); }
void aq_release(int i, long o) { messageq_release(q[i], store[i] + o); }
int aq_empty(int i) { return messageq_empty(q[i]); }
uint8_t *aq_storage(int i) { return store[i]; }
