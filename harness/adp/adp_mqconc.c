/* adp_mqconc.c - harness-side glue for the concurrent message queue scenarios (C04, C07).
 * NOT instrumented; the library sources are. */
#include <stdint.h>
#include <stdlib.h>
#include <string.h>

#include "librfn/messageq.h"
#include "../isched/vrt.h"

static messageq_t *q;
static uint8_t *block, *store;
static size_t store_len;

void amc_setup(unsigned depth, unsigned msg_len)
{
	free(q);
	free(block);
	store_len = (size_t)depth * msg_len;
	block = malloc(store_len + 128);
	memset(block, 0xC7, store_len + 128); /* canaries on both sides */
	store = block + 64;
	q = malloc(sizeof *q);
	messageq_init(q, store, store_len, msg_len);
	vrt_register_buffer(store, store_len, "queue-storage");
}
int amc_canaries_ok(void)
{
	for (int i = 0; i < 64; i++)
		if (block[i] != 0xC7 || block[64 + store_len + i] != 0xC7)
			return 0;
	return 1;
}
static long off(void *p)
{
	if (!p)
		return -1;
	long o = (uint8_t *)p - store;
	return (o < 0 || (size_t)o >= store_len) ? -2 : o;
}
long amc_claim(void) { return off(messageq_claim(q)); }
void amc_send(long o) { messageq_send(q, store + o); }
long amc_receive(void) { return off(messageq_receive(q)); }
void amc_release(long o) { messageq_release(q, store + o); }
int amc_empty(void) { return messageq_empty(q); }
uint8_t *amc_storage(void) { return store; }
