/* adp_bintree.c - flat ABI over bintree.c (C11).
 * Aligned mode: every node is its own malloc block (ASan: use-after-free and overflows are caught).
 * Misaligned mode: nodes are carved out of one block at addresses == 2 (mod 4), the weakest alignment
 * the property allows; dead nodes are filled with 0xDD so that a later dereference faults. */
#include <stdbool.h>
#include <stdint.h>
#include <stdlib.h>
#include <string.h>

#include "librfn/bintree.h"

typedef struct {
	bintree_node_t n;
	int id;
	int is_list;
} tnode_t;

#define MAXN 200100
static tnode_t *node[MAXN];
static int nn, misaligned;
static int L[MAXN], R[MAXN];
static char alive[MAXN];
static char *block;
static int *freelog, freelog_n, freelog_max;

static tnode_t *N(bintree_node_t *b) { return b ? (tnode_t *)b : NULL; }

void at_destroy(void)
{
	if (!misaligned)
		for (int i = 0; i < nn; i++)
			if (alive[i])
				free(node[i]);
	free(block);
	block = NULL;
	nn = 0;
}

void at_build(int n, const int *left, const int *right, const int *is_list, int mis)
{
	at_destroy();
	nn = n;
	misaligned = mis;
	size_t stride = (sizeof(tnode_t) + 8 + 3) & ~(size_t)3; /* keeps every node at == 2 (mod 4) */
	if (mis) {
		block = malloc(stride * (n + 1) + 8);
		memset(block, 0xEE, stride * (n + 1) + 8);
	}
	for (int i = 0; i < n; i++) {
		if (mis) {
			uintptr_t a = (uintptr_t)block + 8 + stride * i;
			a = (a & ~(uintptr_t)3) + 2;
			node[i] = (tnode_t *)a;
		} else
			node[i] = malloc(sizeof(tnode_t));
		alive[i] = 1;
		L[i] = left[i];
		R[i] = right[i];
	}
	for (int i = 0; i < n; i++) {
		tnode_t t;
		t.n.left = left[i] >= 0 ? &node[left[i]]->n : NULL;
		t.n.right = right[i] >= 0 ? &node[right[i]]->n : NULL;
		t.id = i;
		t.is_list = is_list ? is_list[i] : 0;
		memcpy(node[i], &t, sizeof t);
	}
}

/* first alive node whose links differ from the shape as built, or -1.
 * cleared_parent/cleared_side: that link is expected to be NULL now (free_left/right);
 * dangling_parent: that node's link to a freed subtree root is not inspected. */
int at_check_links(int cleared_parent, int cleared_side, int dangling_parent, int dangling_side)
{
	for (int i = 0; i < nn; i++) {
		if (!alive[i])
			continue;
		tnode_t t;
		memcpy(&t, node[i], sizeof t);
		bintree_node_t *el = L[i] >= 0 ? &node[L[i]]->n : NULL;
		bintree_node_t *er = R[i] >= 0 ? &node[R[i]]->n : NULL;
		if (i == cleared_parent) {
			if (cleared_side == 0)
				el = NULL;
			else
				er = NULL;
		}
		bool skip_l = (i == dangling_parent && dangling_side == 0);
		bool skip_r = (i == dangling_parent && dangling_side == 1);
		if ((!skip_l && t.n.left != el) || (!skip_r && t.n.right != er) || t.id != i)
			return i;
	}
	return -1;
}

static int idof(bintree_node_t *b)
{
	tnode_t t;
	memcpy(&t, b, sizeof t);
	return t.id;
}

/* order: 0 in, 1 pre, 2 post.  Iterates until NULL; returns the number of nodes returned. */
int at_iterate(int order, int root, int *out, int max)
{
	bintree_iterator_t it;
	bintree_node_t *r = root >= 0 ? &node[root]->n : NULL, *n;
	int k = 0;
	n = order == 0 ? bintree_iterate_in_order(&it, r) :
	    order == 1 ? bintree_iterate_pre_order(&it, r) : bintree_iterate_post_order(&it, r);
	while (n && k < max) {
		out[k++] = idof(n);
		n = bintree_next(&it);
	}
	return n ? -1 : k; /* -1: more nodes than the tree has */
}

struct ctx {
	int *out;
	int k, max;
};
static void visit(void *c, bintree_node_t *n, bintree_node_t *parent, int depth)
{
	struct ctx *x = c;
	(void)parent;
	(void)depth;
	if (n && x->k < x->max)
		x->out[x->k++] = idof(n);
}
int at_traverse(int order, int root, int *out, int max)
{
	struct ctx x = { out, 0, max };
	bintree_node_t *r = root >= 0 ? &node[root]->n : NULL;
	if (order == 0)
		bintree_traverse_in_order(r, visit, &x);
	else if (order == 1)
		bintree_traverse_pre_order(r, visit, &x);
	else
		bintree_traverse_post_order(r, visit, &x);
	return x.k;
}

static void dealloc(bintree_node_t *b)
{
	int id = idof(b);
	if (freelog_n < freelog_max)
		freelog[freelog_n] = id;
	freelog_n++;
	if (id >= 0 && id < nn && alive[id]) {
		alive[id] = 0;
		if (misaligned)
			memset(node[id], 0xDD, sizeof(tnode_t));
		else
			free(node[id]);
	} else
		abort(); /* a node handed to the deallocator twice, or not one of ours */
}

/* mode 0: bintree_free(node), 1: bintree_free_left(node), 2: bintree_free_right(node) */
int at_free(int mode, int target, int *log, int max)
{
	freelog = log;
	freelog_n = 0;
	freelog_max = max;
	if (mode == 0)
		bintree_free(&node[target]->n, dealloc);
	else if (mode == 1)
		bintree_free_left(&node[target]->n, dealloc);
	else
		bintree_free_right(&node[target]->n, dealloc);
	return freelog_n;
}

/* ---- list spines ---- */
static bool is_list(bintree_node_t *b)
{
	if (!b)
		return false; /* NULL-tolerant, as the iterator applies it to the tree it is given */
	tnode_t t;
	memcpy(&t, b, sizeof t);
	return t.is_list;
}
static void lvisit(void *c, bintree_node_t *n)
{
	struct ctx *x = c;
	if (x->k < x->max)
		x->out[x->k++] = idof(n);
}
int at_list_traverse(int root, int *out, int max)
{
	struct ctx x = { out, 0, max };
	bintree_traverse_list(root >= 0 ? &node[root]->n : NULL, is_list, lvisit, &x);
	return x.k;
}
int at_list_iterate(int root, int *out, int max)
{
	bintree_iterator_t it;
	int k = 0;
	bintree_node_t *n = bintree_iterate_list(&it, root >= 0 ? &node[root]->n : NULL, is_list);
	while (n && k < max) {
		out[k++] = idof(n);
		n = bintree_next(&it);
	}
	return n ? -1 : k;
}
