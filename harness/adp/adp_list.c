/* adp_list.c - flat C ABI over librfn/list.c for the C09 harness.
 * Nodes live in one exactly-sized heap block so ASan sees any stray access. */
#include <stdbool.h>
#include <stdlib.h>
#include <string.h>

#include "librfn/list.h"
#include "librfn/util.h"

typedef struct {
	list_node_t link;
	int key;
} anode_t;

#define MAXN 8
#define MAXL 4
#define MAXI 4

static anode_t *nodes;
static list_t *lists;
static list_iterator_t *iters;

static int idx(list_node_t *n)
{
	if (!n)
		return -1;
	anode_t *a = containerof(n, anode_t, link);
	if (a < nodes || a >= nodes + MAXN)
		return -2; /* a pointer that is not one of ours */
	return (int)(a - nodes);
}

void al_reset(void)
{
	free(nodes);
	free(lists);
	free(iters);
	nodes = calloc(MAXN, sizeof(*nodes));
	lists = calloc(MAXL, sizeof(*lists));
	iters = calloc(MAXI, sizeof(*iters));
}

static int cmp(list_node_t *a, list_node_t *b)
{
	return containerof(a, anode_t, link)->key - containerof(b, anode_t, link)->key;
}

void al_set_key(int n, int k) { nodes[n].key = k; }
void al_insert(int l, int n) { list_insert(&lists[l], &nodes[n].link); }
void al_push(int l, int n) { list_push(&lists[l], &nodes[n].link); }
void al_insert_sorted(int l, int n) { list_insert_sorted(&lists[l], &nodes[n].link, cmp); }
int al_extract(int l) { return idx(list_extract(&lists[l])); }
int al_remove(int l, int n) { return list_remove(&lists[l], &nodes[n].link); }
int al_contains(int l, int n, int it)
{
	return list_contains(&lists[l], &nodes[n].link, it < 0 ? NULL : &iters[it]);
}
int al_iterate(int l, int it) { return idx(list_iterate(&lists[l], &iters[it])); }
int al_next(int it) { return idx(list_iterator_next(&iters[it])); }
void al_iter_insert(int it, int n) { list_iterator_insert(&iters[it], &nodes[n].link); }
int al_iter_remove(int it) { return idx(list_iterator_remove(&iters[it])); }
int al_empty(int l) { return list_empty(&lists[l]); }
int al_peek(int l) { return idx(list_peek(&lists[l])); }
int al_next_is_null(int n) { return nodes[n].link.next == NULL; }

/* ---- long lists (custom stage): n nodes in one list; a counter narrower than the list is long shows only here.
 * Returns 0 and leaves msg untouched if everything agrees with the obvious sequence semantics. */
#include <stdio.h>
int al_long_list(unsigned n, unsigned salt, char *msg, size_t msglen)
{
	anode_t *big = calloc(n + 2, sizeof(*big)), *srt = NULL;
	list_t l = LIST_VAR_INIT, s = LIST_VAR_INIT;
	list_iterator_t it;
	int rc = 1;
#define LFAIL(...)                                    \
	do {                                          \
		snprintf(msg, msglen, __VA_ARGS__);   \
		goto out;                             \
	} while (0)
	for (unsigned i = 0; i < n; i++) {
		big[i].key = (int)i;
		list_insert(&l, &big[i].link);
	}
	/* membership and iterator position at both ends and around 2^8 / 2^16 */
	unsigned probe[] = { 0, 1, 255, 256, 257, 65534, 65535, 65536, 65537, n - 2, n - 1, (salt * 2654435761u) % n };
	for (unsigned k = 0; k < sizeof probe / sizeof *probe; k++) {
		unsigned i = probe[k];
		if (i >= n)
			continue;
		if (!list_contains(&l, &big[i].link, NULL))
			LFAIL("list of %u nodes: list_contains(node at position %u) returned false", n, i);
		if (!list_contains(&l, &big[i].link, &it))
			LFAIL("list of %u nodes: list_contains(node at position %u, iterator) returned false", n, i);
		list_node_t *nx = list_iterator_next(&it);
		if (nx != (i + 1 < n ? &big[i + 1].link : NULL))
			LFAIL("list of %u nodes: after list_contains positioned the iterator at %u, list_iterator_next is not position %u", n, i, i + 1);
	}
	if (list_contains(&l, &big[n].link, NULL))
		LFAIL("list of %u nodes: list_contains(non-member) returned true", n);
	/* removal far down the list, then a full traversal */
	unsigned victim = n > 65600 ? 65540 : n / 2;
	if (!list_remove(&l, &big[victim].link))
		LFAIL("list of %u nodes: list_remove(node at position %u) returned false", n, victim);
	if (list_remove(&l, &big[victim].link))
		LFAIL("list of %u nodes: list_remove of a node that was just removed returned true", n);
	unsigned cnt = 0, expect = 0;
	for (list_node_t *p = list_iterate(&l, &it); p; p = list_iterator_next(&it), cnt++, expect++) {
		if (expect == victim)
			expect++;
		if (p != &big[expect].link)
			LFAIL("list of %u nodes: traversal after removing position %u yields the wrong node at index %u", n, victim, cnt);
	}
	if (cnt != n - 1)
		LFAIL("list of %u nodes: traversal after one removal yields %u nodes", n, cnt);
	/* tail insertion still lands at the end; head extraction yields position 0 */
	list_insert(&l, &big[victim].link);
	if (!list_contains(&l, &big[victim].link, &it) || list_iterator_next(&it) != NULL)
		LFAIL("list of %u nodes: a node inserted at the tail is not the last one", n);
	if (list_extract(&l) != &big[0].link)
		LFAIL("list of %u nodes: list_extract did not return the head", n);
	/* sorted insertion into a long sorted list: every third key, then keys in between, at the ends, and equal ones */
	srt = calloc(n + 8, sizeof(*srt));
	for (unsigned i = 0; i < n; i++) {
		srt[i].key = (int)(3 * i);
		list_insert_sorted(&s, &srt[i].link, cmp);
	}
	int extra[] = { -5, 3 * 70, 3 * 65536 + 1, 3 * 65536, (int)(3 * (n - 1)), (int)(3 * n + 7), 1, (int)(3 * (n / 2) + 2) };
	for (unsigned k = 0; k < 8; k++) {
		srt[n + k].key = extra[k];
		list_insert_sorted(&s, &srt[n + k].link, cmp);
	}
	cnt = 0;
	list_node_t *prev = NULL;
	for (list_node_t *p = list_iterate(&s, &it); p; prev = p, p = list_iterator_next(&it), cnt++) {
		if (!prev)
			continue;
		anode_t *a = containerof(prev, anode_t, link), *b = containerof(p, anode_t, link);
		if (a->key > b->key)
			LFAIL("sorted list of %u nodes: key %d precedes key %d after sorted insertions", n, a->key, b->key);
		if (a->key == b->key && a > b)
			LFAIL("sorted list of %u nodes: a node inserted later sits before an existing node with the same key %d", n, a->key);
	}
	if (cnt != n + 8)
		LFAIL("sorted list of %u nodes: %u nodes found after %u insertions", n, cnt, n + 8);
	rc = 0;
out:
	free(srt);
	free(big);
	return rc;
#undef LFAIL
}
