/* adp_list.c - flat C ABI over librfn/list.c for the C09 harness.
 * Nodes live in one exactly-sized heap block so ASan sees any stray access. */
#include <stdbool.h>
#include <stdlib.h>
#include <string.h>

#include "librfn/list.h"
#include "librfn/util.h"

typedef struct {
	list_node_t link;
	int key;
} anode_t;

#define MAXN 8
#define MAXL 4
#define MAXI 4

static anode_t *nodes;
static list_t *lists;
static list_iterator_t *iters;

static int idx(list_node_t *n)
{
	if (!n)
		return -1;
	anode_t *a = containerof(n, anode_t, link);
	if (a < nodes || a >= nodes + MAXN)
		return -2; /* a pointer that is not one of ours */
	return (int)(a - nodes);
}

void al_reset(void)
{
	free(nodes);
	free(lists);
	free(iters);
	nodes = calloc(MAXN, sizeof(*nodes));
	lists = calloc(MAXL, sizeof(*lists));
	iters = calloc(MAXI, sizeof(*iters));
}

static int cmp(list_node_t *a, list_node_t *b)
{
	return containerof(a, anode_t, link)->key - containerof(b, anode_t, link)->key;
}

void al_set_key(int n, int k) { nodes[n].key = k; }
void al_insert(int l, int n) { list_insert(&lists[l], &nodes[n].link); }
void al_push(int l, int n) { list_push(&lists[l], &nodes[n].link); }
void al_insert_sorted(int l, int n) { list_insert_sorted(&lists[l], &nodes[n].link, cmp); }
int al_extract(int l) { return idx(list_extract(&lists[l])); }
int al_remove(int l, int n) { return list_remove(&lists[l], &nodes[n].link); }
int al_contains(int l, int n, int it)
{
	return list_contains(&lists[l], &nodes[n].link, it < 0 ? NULL : &iters[it]);
}
int al_iterate(int l, int it) { return idx(list_iterate(&lists[l], &iters[it])); }
int al_next(int it) { return idx(list_iterator_next(&iters[it])); }
void al_iter_insert(int it, int n) { list_iterator_insert(&iters[it], &nodes[n].link); }
int al_iter_remove(int it) { return idx(list_iterator_remove(&iters[it])); }
int al_empty(int l) { return list_empty(&lists[l]); }
int al_peek(int l) { return idx(list_peek(&lists[l])); }
int al_next_is_null(int n) { return nodes[n].link.next == NULL; }
