#!/usr/bin/env python3
"""tsan_soak.py - E6: build harness/tsan/soak.c with the repo sources under the real ThreadSanitizer and run it on
real pthreads (script-kind harness for lib/vlib.py).  Not reproducible run to run: supplementary evidence for C07.

  tsan_soak.py run --seed S --worker w --workers W --out PREFIX --repo REPO --build DIR [--param ms=N]
  tsan_soak.py replay FILE [--repo REPO]
"""
import sys, os, json, subprocess, argparse, tempfile, shutil

HERE = os.path.dirname(os.path.abspath(__file__))
SRCS = ['librfn/ringbuf.c', 'librfn/messageq.c', 'librfn/fibre.c', 'librfn/list.c', 'librfn/util.c', 'librfn/posix/time_posix.c']


def build(repo, d):
    os.makedirs(d, exist_ok=True)
    exe = os.path.join(d, 'soak')
    cmd = ['gcc', '-O1', '-g', '-fsanitize=thread', '-I', os.path.join(repo, 'include'), os.path.join(HERE, 'soak.c')] + \
          [os.path.join(repo, s) for s in SRCS] + ['-o', exe, '-lpthread']
    r = subprocess.run(cmd, stdout=subprocess.PIPE, stderr=subprocess.STDOUT, text=True)
    if r.returncode != 0:
        print(r.stdout)
        sys.exit(2)
    return exe


def soak(exe, seed, ms):
    env = dict(os.environ, TSAN_OPTIONS='halt_on_error=1 second_deadlock_stack=1')
    try:
        r = subprocess.run(['setarch', '-R', exe, str(seed), str(ms)], stdout=subprocess.PIPE, stderr=subprocess.STDOUT, text=True, env=env,
                           timeout=ms / 1000.0 * 20 + 60, errors='replace')
    except subprocess.TimeoutExpired:
        return True, '(soak did not finish: inconclusive)', ''
    out = r.stdout
    bad = 'WARNING: ThreadSanitizer' in out or 'SOAK-FAIL' in out
    return (not bad), out, (out.splitlines()[-1] if out.strip() else '')


def cmd_run(a):
    params = dict(p.split('=', 1) for p in a.param)
    ms = int(params.get('ms', 3000))
    exe = build(a.repo, os.path.join(a.build, 'w%d' % a.worker))
    ok, out, last = soak(exe, a.seed, ms)
    stats = dict(harness='tsan', mode='script', evaluations=1, nontrivial=1 if ok and 'SOAK-OK' in out else 0, distinct_direct=1 if ok and 'SOAK-OK' in out else 0,
                 exhaustive=False, classes={'real-thread soak runs': 1}, failed=not ok,
                 samples=[dict(pick='soak', case='seed %d, %d ms: %s' % (a.seed, ms, last))])
    if not ok:
        lines = [l for l in out.splitlines() if l.strip()]
        msg = next((l for l in lines if 'SOAK-FAIL' in l), None) or next((l for l in lines if l.startswith('SUMMARY: ThreadSanitizer')), 'ThreadSanitizer report')
        stats['failmsg'] = msg
        with open(a.out + '.fail', 'w') as f:
            f.write('# librfn-verif replay\nharness tsan\nsoak seed=%d ms=%d\n# message: %s\n' % (a.seed, ms, msg))
            for l in lines[:120]:
                f.write('# ' + l + '\n')
    with open(a.out + '.stats.json.tmp', 'w') as f:
        json.dump(stats, f)
    os.rename(a.out + '.stats.json.tmp', a.out + '.stats.json')
    return 0 if ok else 1


def cmd_replay(a):
    seed, ms = 1, 3000
    for line in open(a.file):
        if line.startswith('soak '):
            kv = dict(p.split('=') for p in line.split()[1:])
            seed, ms = int(kv['seed']), int(kv['ms'])
    d = tempfile.mkdtemp(prefix='tsanreplay_', dir=os.environ.get('VERIF_BUILD_DIR', os.path.join(HERE, '..', '..', 'build')))
    try:
        exe = build(a.repo, d)
        # real-thread schedules do not repeat: give the report three times the original budget to show up again
        ok, out, last = soak(exe, seed, ms * 3)
    finally:
        shutil.rmtree(d, ignore_errors=True)
    print(out[-4000:])
    print('REPLAY-PASS' if ok else 'REPLAY-FAIL: ' + next((l for l in out.splitlines() if l.startswith('SUMMARY: ThreadSanitizer') or 'SOAK-FAIL' in l), 'ThreadSanitizer report'))
    return 0 if ok else 1


def main():
    ap = argparse.ArgumentParser()
    sub = ap.add_subparsers(dest='cmd')
    r = sub.add_parser('run')
    r.add_argument('--seed', type=int, default=1)
    r.add_argument('--worker', type=int, default=0)
    r.add_argument('--workers', type=int, default=1)
    r.add_argument('--out', required=True)
    r.add_argument('--repo', default=os.environ.get('VERIF_REPO', '/repo'))
    r.add_argument('--build', required=True)
    r.add_argument('--param', action='append', default=[])
    p = sub.add_parser('replay')
    p.add_argument('file')
    p.add_argument('--repo', default=os.environ.get('VERIF_REPO', '/repo'))
    a = ap.parse_args()
    return cmd_run(a) if a.cmd == 'run' else cmd_replay(a) if a.cmd == 'replay' else 2


if __name__ == '__main__':
    sys.exit(main())
