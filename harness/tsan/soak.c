/* soak.c - E6: the supported concurrent usage patterns on real pthreads under the real ThreadSanitizer.
 * usage: soak <seed> <milliseconds>.  Exit 0 normally; TSan (halt_on_error=1) exits 66 on a report.
 * Workloads are seeded (rand_r) but real-thread schedules are not reproducible: supplementary evidence. */
#include <pthread.h>
#include <stdint.h>
#include <stdio.h>
#include <stdlib.h>
#include <string.h>
#include <time.h>

#include "librfn/fibre.h"
#include "librfn/messageq.h"
#include "librfn/ringbuf.h"

static int stop_flag;
#define stop __atomic_load_n(&stop_flag, __ATOMIC_RELAXED)
static unsigned long n_ring, n_mq, n_wake, n_ev;

static uint64_t now_ms(void)
{
	struct timespec ts;
	clock_gettime(CLOCK_MONOTONIC, &ts);
	return (uint64_t)ts.tv_sec * 1000 + ts.tv_nsec / 1000000;
}

/* ---- ring buffer: one producer, one consumer */
static ringbuf_t rb;
static uint8_t rbuf[7];
static void *ring_producer(void *a)
{
	unsigned seed = (unsigned)(uintptr_t)a;
	uint8_t v = 0;
	while (!stop) {
		if (ringbuf_put(&rb, v))
			v++;
		if (rand_r(&seed) % 8 == 0)
			sched_yield();
	}
	return NULL;
}
static void *ring_consumer(void *a)
{
	unsigned seed = (unsigned)(uintptr_t)a;
	uint8_t expect = 0;
	while (!stop) {
		int d = rand_r(&seed) % 5 ? ringbuf_get(&rb) : (ringbuf_empty(&rb) ? -1 : ringbuf_get(&rb));
		if (d >= 0) {
			if (d != expect) {
				fprintf(stderr, "SOAK-FAIL: ring buffer delivered %d, expected %d\n", d, expect);
				exit(3);
			}
			expect++;
			n_ring++;
		}
	}
	return NULL;
}

/* ---- message queue: three senders, one receiver */
struct msg {
	uint32_t sender, seq, check;
};
static messageq_t mq;
static struct msg mqbuf[3];
static void *mq_sender(void *a)
{
	uint32_t id = (uint32_t)(uintptr_t)a, seq = 0;
	unsigned seed = id * 7919 + 1;
	while (!stop) {
		struct msg *m = messageq_claim(&mq);
		if (m) {
			m->sender = id;
			m->seq = seq;
			m->check = id * 1000003u + seq;
			seq++;
			messageq_send(&mq, m);
		} else if (rand_r(&seed) % 4 == 0)
			sched_yield();
	}
	return NULL;
}
static void *mq_receiver(void *a)
{
	uint32_t next[8] = { 0 };
	(void)a;
	while (!stop) {
		struct msg *m = messageq_receive(&mq);
		if (!m)
			continue;
		if (m->check != m->sender * 1000003u + m->seq || m->seq != next[m->sender & 7]) {
			fprintf(stderr, "SOAK-FAIL: message queue delivered sender %u seq %u (expected seq %u)\n", m->sender, m->seq, next[m->sender & 7]);
			exit(3);
		}
		next[m->sender & 7]++;
		n_mq++;
		messageq_release(&mq, m);
	}
	return NULL;
}

/* ---- fibres: scheduler thread, two injector threads */
static fibre_eventq_t evq;
static uint32_t evbuf[2];
static fibre_t waker;
static unsigned long wake_count;
static int ev_fn(fibre_t *f)
{
	uint32_t *e;
	(void)f;
	while ((e = fibre_eventq_receive(&evq))) {
		if ((*e >> 24) != 0xEE) {
			fprintf(stderr, "SOAK-FAIL: corrupted event %08x\n", *e);
			exit(3);
		}
		n_ev++;
		fibre_eventq_release(&evq, e);
	}
	return FIBRE_STATE_WAITING;
}
static int wake_fn(fibre_t *f)
{
	(void)f;
	wake_count++;
	n_wake++;
	return wake_count % 3 ? FIBRE_STATE_WAITING : FIBRE_STATE_YIELDED;
}
static void *sched_thread(void *a)
{
	uint32_t t = 0;
	(void)a;
	while (!stop)
		fibre_scheduler_next(t++);
	return NULL;
}
static void *inject_thread(void *a)
{
	unsigned seed = (unsigned)(uintptr_t)a;
	uint32_t n = 0;
	while (!stop) {
		if (rand_r(&seed) % 2) {
			fibre_run_atomic(&waker);
		} else {
			uint32_t *e = fibre_eventq_claim(&evq);
			if (e) {
				*e = 0xEE000000u | (n++ & 0xffffff);
				fibre_eventq_send(&evq, e);
			}
		}
		if (rand_r(&seed) % 16 == 0)
			sched_yield();
	}
	return NULL;
}

int main(int argc, char **argv)
{
	unsigned seed = argc > 1 ? (unsigned)atoi(argv[1]) : 1;
	unsigned ms = argc > 2 ? (unsigned)atoi(argv[2]) : 1000;
	pthread_t th[10];
	int n = 0;
	ringbuf_init(&rb, rbuf, sizeof rbuf);
	messageq_init(&mq, mqbuf, sizeof mqbuf, sizeof mqbuf[0]);
	fibre_eventq_init(&evq, ev_fn, evbuf, sizeof evbuf, sizeof evbuf[0]);
	fibre_init(&waker, wake_fn);
	pthread_create(&th[n++], NULL, ring_producer, (void *)(uintptr_t)(seed * 3 + 1));
	pthread_create(&th[n++], NULL, ring_consumer, (void *)(uintptr_t)(seed * 5 + 2));
	for (uintptr_t i = 0; i < 3; i++)
		pthread_create(&th[n++], NULL, mq_sender, (void *)(i + 1));
	pthread_create(&th[n++], NULL, mq_receiver, NULL);
	pthread_create(&th[n++], NULL, sched_thread, NULL);
	pthread_create(&th[n++], NULL, inject_thread, (void *)(uintptr_t)(seed * 11 + 3));
	pthread_create(&th[n++], NULL, inject_thread, (void *)(uintptr_t)(seed * 13 + 4));
	uint64_t end = now_ms() + ms;
	while (now_ms() < end) {
		struct timespec ts = { 0, 5000000 };
		nanosleep(&ts, NULL);
	}
	__atomic_store_n(&stop_flag, 1, __ATOMIC_RELAXED);
	for (int i = 0; i < n; i++)
		pthread_join(th[i], NULL);
	printf("SOAK-OK ring=%lu mq=%lu wakeups=%lu events=%lu\n", n_ring, n_mq, n_wake, n_ev);
	return 0;
}
